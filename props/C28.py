"""C28 PipelineBuilder pipelines are ordered, lossless and compute the composed stages
(specs: specs/lib/Pipeline.tla, PipelineMC.tla, PipelineTrace.tla).

A pipeline shape is a JSON value
  {"nodes": [{"kind": "ext"|"call"|"fn", "req": [field..], "gen": [field..],
              "fn": [{"op","x","y","c"} per gen field], "nodep": bool,
              "conn": "pipe"|"fifo", "depth": d   (connector in front of the node)}...],
   "allow_unused": bool, "allow_empty": bool}
built for real with PipelineBuilder (external methods called by harness transactions, called
methods and stage functions owned by the harness with a trigger input and witness signals) and
handed to TLC as data.
"""
from __future__ import annotations

import json
import multiprocessing as mp
import os
import random
import tempfile
import traceback
from collections import defaultdict

from vlib import tlc
from vlib import comp as vcomp
from vlib import metricsharness as mh

W = 4                     # width of every pipeline field
MOD = 1 << W
FIELDS = ["id", "a", "b", "c"]


# ---------------------------------------------------------------------------------------
# stage functions (identical definitions live in Pipeline.tla: Eval)

def eval_fn(f, vals):
    """vals: field -> amaranth Value or int"""
    op = f["op"]
    if op == "inc":
        return vals[f["x"]] + 1
    if op == "dbl":
        return vals[f["x"]] * 2
    if op == "add":
        return vals[f["x"]] + vals[f["y"]]
    if op == "copy":
        return vals[f["x"]]
    if op == "const":
        return f["c"]
    if op == "ctr":          # source nodes: value of the harness item counter
        return vals["__ctr"]
    raise ValueError(op)


# ---------------------------------------------------------------------------------------
# the device under test: a PipelineBuilder pipeline around harness-owned stages

def make_dut(shape):
    from amaranth import Elaboratable, Signal, Cat, C
    from transactron import Method, TModule, def_method
    from transactron.lib.pipeline import PipelineBuilder

    class PipeDut(Elaboratable):
        def __init__(self):
            nodes = shape["nodes"]
            self.ext = {}
            self.trig = {}
            self.wit = {}
            for j, nd in enumerate(nodes):
                if nd["kind"] == "ext":
                    self.ext[j] = Method(name=f"ext{j}", i=[(f, W) for f in nd["gen"]], o=[(f, W) for f in nd["req"]])
                else:
                    self.trig[j] = Signal(name=f"trig{j}")
                    self.wit[f"f{j}"] = Signal(name=f"wf{j}")
                    for f in nd["req"]:
                        self.wit[f"r{j}_{f}"] = Signal(W, name=f"wr{j}_{f}")
                    for f in nd["gen"]:
                        self.wit[f"g{j}_{f}"] = Signal(W, name=f"wg{j}_{f}")
            self.clear = Method(name="pclear")
            self.ctr = Signal(W, name="item_ctr")
            self.p = None

        def elaborate(self, platform):
            m = TModule()
            nodes = shape["nodes"]
            p = PipelineBuilder(allow_unused=shape.get("allow_unused", False), allow_empty=shape.get("allow_empty", False))
            self.p = p
            m.submodules.pipeline = p

            def body(j, nd, argvals):
                """common body of called methods and stage functions: witnesses + the function"""
                m.d.comb += self.wit[f"f{j}"].eq(1)
                vals = dict(argvals)
                vals["__ctr"] = self.ctr
                for f in nd["req"]:
                    m.d.comb += self.wit[f"r{j}_{f}"].eq(argvals[f])
                out = {}
                for f, fn in zip(nd["gen"], nd["fn"]):
                    v = Signal(W, name=f"o{j}_{f}")
                    m.d.av_comb += v.eq(eval_fn(fn, vals))
                    m.d.comb += self.wit[f"g{j}_{f}"].eq(v)
                    out[f] = v
                if any(fn["op"] == "ctr" for fn in nd["fn"]):
                    m.d.sync += self.ctr.eq(self.ctr + 1)
                return out

            for j, nd in enumerate(nodes):
                if j > 0 and nd.get("conn") == "fifo":
                    p.fifo(nd["depth"])
                kw = {"no_dependency": True} if nd.get("nodep") else {}
                if nd["kind"] == "ext":
                    p.add_external(self.ext[j], **kw)
                elif nd["kind"] == "call":
                    target = Method(name=f"target{j}", i=[(f, W) for f in nd["req"]], o=[(f, W) for f in nd["gen"]])

                    def mk(j=j, nd=nd):
                        @def_method(m, target, ready=self.trig[j])
                        def _(arg):
                            return body(j, nd, {f: arg[f] for f in nd["req"]})
                    mk()
                    p.call_method(target, **kw)
                else:
                    def mk(j=j, nd=nd):
                        def func(arg):
                            return body(j, nd, {f: arg[f] for f in nd["req"]}) or None
                        if nd.get("named"):
                            # parameters matched by name against the live pipeline signals
                            ns = {"body": body, "j": j, "nd": nd}
                            params = ", ".join(nd["req"])
                            dct = "{" + ", ".join(f"'{f}': {f}" for f in nd["req"]) + "}"
                            exec(f"def func({params}):\n    return body(j, nd, {dct}) or None\n", ns)
                            p.stage(m, o=[(f, W) for f in nd["gen"]], ready=self.trig[j], **kw)(ns["func"])
                        else:
                            p.stage(m, o=[(f, W) for f in nd["gen"]], i=[(f, W) for f in nd["req"]],
                                    ready=self.trig[j], **kw)(func)
                    mk()
            self.clear.provide(p.clear)
            return m

    return PipeDut()


def build(shape):
    dut = make_dut(shape)
    meths = {f"ext{j}": mth for j, mth in dut.ext.items()}
    meths["clear"] = dut.clear
    return dut, meths, dict(dut.wit)


# ---------------------------------------------------------------------------------------
# shape generator

def _mkfn(rng, req, field):
    if not req:
        return {"op": "const", "x": "", "y": "", "c": rng.randrange(1, MOD)}
    op = rng.choice(["inc", "dbl", "add", "copy", "add", "inc"])
    return {"op": op, "x": rng.choice(req), "y": rng.choice(req), "c": 0}


def gen_shape(rng, n=None):
    """A well-formed random shape (the builder's own rules: every generated field is used later,
    something is live between nodes, no_dependency nodes require nothing).  `id` is generated by
    the first node only and read by the last one."""
    n = n or rng.choice([2, 3, 3, 4, 4, 5])
    allow_unused = rng.random() < 0.15
    nodes, defined, unused = [], set(), set()
    for j in range(n):
        last = j == n - 1
        nd = {"kind": rng.choice(["ext", "call", "fn", "fn"]), "nodep": False, "conn": "none", "depth": 0}
        if j == 0:
            nd["kind"] = rng.choice(["ext", "ext", "ext", "call", "fn"])
            nd["req"] = []
            nd["gen"] = ["id"] + sorted(rng.sample(["a", "b", "c"], rng.choice([0, 1, 1, 2])))
            nd["nodep"] = rng.random() < 0.1
            nd["fn"] = [] if nd["kind"] == "ext" else \
                [{"op": "ctr", "x": "", "y": "", "c": 0}] + [_mkfn(rng, [], f) for f in nd["gen"][1:]]
        else:
            nd["conn"] = rng.choice(["pipe", "pipe", "fifo"])
            nd["depth"] = rng.randint(1, 3) if nd["conn"] == "fifo" else 1
            nodep = (not last) and rng.random() < 0.2
            if last:
                nd["kind"] = rng.choice(["ext", "ext", "call", "fn"])
            if nodep:
                req = []
            else:
                pool = sorted(defined)
                req = sorted(rng.sample(pool, rng.randint(0 if not last else 1, len(pool))))
                if last:
                    req = sorted(set(req) | {"id"} | (set() if allow_unused else unused))
            free = [f for f in ("a", "b", "c") if f not in unused or f in req or allow_unused]
            gen = [] if last and not allow_unused else sorted(rng.sample(free, rng.randint(0, min(2, len(free)))))
            if nodep and not gen:
                gen = [rng.choice(free)] if free else []
                nodep = bool(gen)
            nd.update({"nodep": nodep, "req": req, "gen": gen})
            nd["fn"] = [] if nd["kind"] == "ext" else [_mkfn(rng, req, f) for f in gen]
        if nd["kind"] == "fn":
            nd["named"] = rng.random() < 0.5
        unused -= set(nd["req"])
        defined |= set(nd["gen"])
        unused |= set(nd["gen"])
        nodes.append(nd)
    return {"nodes": nodes, "allow_unused": allow_unused, "allow_empty": False}


def gen_regenerate_shape(rng):
    """allow_empty family (test_pipeline's TwoExternals pattern): a node consumes every live field,
    a no_dependency node supplies them again."""
    def conn():
        c = rng.choice(["pipe", "fifo"])
        return {"conn": c, "depth": rng.randint(1, 3) if c == "fifo" else 1}
    k2 = rng.choice(["ext", "call"])
    nodes = [
        {"kind": "ext", "req": [], "gen": ["id", "a"], "fn": [], "nodep": False, "conn": "none", "depth": 0},
        dict({"kind": rng.choice(["ext", "call", "fn"]), "req": ["a", "id"], "gen": [], "fn": [], "nodep": False}, **conn()),
        dict({"kind": k2, "req": [], "gen": ["a", "id"], "nodep": True,
              "fn": [] if k2 == "ext" else [{"op": "const", "x": "", "y": "", "c": 7}, {"op": "ctr", "x": "", "y": "", "c": 0}]},
             **conn()),
        dict({"kind": rng.choice(["ext", "call"]), "req": ["a", "id"], "gen": [], "fn": [], "nodep": False}, **conn()),
    ]
    return {"nodes": nodes, "allow_unused": False, "allow_empty": True}


def break_shape(rng, shape):
    """One random edit that may or may not be legal for the builder (counted, never a violation)."""
    s = json.loads(json.dumps(shape))
    nd = rng.choice(s["nodes"])
    k = rng.randrange(5)
    if k == 0:
        nd["nodep"] = True
    elif k == 1 and nd["req"]:
        nd["req"] = nd["req"][1:]
        for f in nd["fn"]:
            f.update({"op": "const", "c": 3})
    elif k == 2:
        f = rng.choice(["a", "b", "c"])
        if f not in nd["req"]:
            nd["req"] = sorted(nd["req"] + [f])
    elif k == 3:
        f = rng.choice(["a", "b", "c"])
        if f not in nd["gen"]:
            nd["gen"] = nd["gen"] + [f]
            nd["fn"] = nd["fn"] + ([{"op": "const", "x": "", "y": "", "c": 5}] if nd["kind"] != "ext" else [])
    else:
        s["allow_empty"] = not s["allow_empty"]
        s["allow_unused"] = not s["allow_unused"]
    return s


# ---------------------------------------------------------------------------------------
# driving and recording

def _arg(fields, vals):
    if not fields:
        return None
    if len(fields) == 1:
        return vals[fields[0]]
    return {f: vals[f] for f in fields}


def _aslist(fields, v):
    if not fields:
        return []
    if len(fields) == 1:
        return [v]
    return [v[f] for f in fields]


def total_cap(shape):
    return sum((nd["depth"] if nd["conn"] == "fifo" else 1) + (1 if nd["nodep"] else 0) for nd in shape["nodes"])


def repack(shape, line, drain):
    out = []
    for j, nd in enumerate(shape["nodes"]):
        if nd["kind"] == "ext":
            e = line[f"ext{j}"]
            f, r, g = e["done"], _aslist(nd["req"], e["out"]), _aslist(nd["gen"], e["arg"])
        else:
            p = line["pub"]
            f = p[f"f{j}"]
            r = [p[f"r{j}_{x}"] for x in nd["req"]]
            g = [p[f"g{j}_{x}"] for x in nd["gen"]]
        out.append({"f": 0 if nd["nodep"] else f, "s": f if nd["nodep"] else 0,
                    "r": r if f else [0] * len(r), "g": g if f else [0] * len(g)})
    return {"n": out, "clear": line["clear"]["done"], "drain": drain}


def run_schedule(shape, steps):
    """steps: list of {"trig": [j..], "args": {j: {field: v}}, "clear": bool}; returns repacked lines"""
    from vlib.drive import CompSim
    cs = CompSim(build, shape)
    dut = cs.h.dut
    plain = {f"t{j}": s for j, s in dut.trig.items()}
    sched = []
    for st in steps:
        step = {"_in": {f"t{j}": int(j in st["trig"]) for j in dut.trig}, "_args": {}}
        for j, nd in enumerate(shape["nodes"]):
            if nd["kind"] == "ext":
                a = _arg(nd["gen"], st["args"].get(j) or st["args"].get(str(j)) or {f: 0 for f in nd["gen"]})
                if j in st["trig"]:
                    step[f"ext{j}"] = a
                elif a is not None:
                    step["_args"][f"ext{j}"] = a
        if st.get("clear"):
            step["clear"] = None
        sched.append(step)
    lines = cs.run(sched, plain_inputs=plain)
    return [repack(shape, ln, int(bool(st.get("drain")))) for ln, st in zip(lines, steps)]


def random_steps(shape, rng, cycles):
    """Seeded random history of triggers / outside calls / clears, followed by a drain phase in
    which nothing enters, nothing is cleared and every other node is offered every cycle."""
    nodes = shape["nodes"]
    n = len(nodes)
    steps, nid = [], 1
    phase_end, p, pclear = 0, {}, 0.0
    for i in range(cycles):
        if i >= phase_end:
            phase_end = i + rng.choice([3, 8, 20, 40])
            p = {j: rng.choice([0.15, 0.5, 0.85, 1.0, 1.0]) for j in range(n)}
            pclear = rng.choice([0.0, 0.0, 0.03, 0.1])
        st = {"trig": [j for j in range(n) if rng.random() < p[j]], "args": {}, "clear": rng.random() < pclear}
        for j, nd in enumerate(nodes):
            if nd["kind"] == "ext" and nd["gen"]:
                st["args"][j] = {f: (nid + i) % MOD if f == "id" else rng.randrange(MOD) for f in nd["gen"]}
        steps.append(st)
    d = total_cap(shape) + 2 * n + 4
    for i in range(d):
        st = {"trig": list(range(1, n)), "args": {}, "clear": False, "drain": i == d - 1}
        for j, nd in enumerate(nodes):
            if nd["kind"] == "ext" and nd["gen"]:
                st["args"][j] = {f: rng.randrange(MOD) for f in nd["gen"]}
        steps.append(st)
    return steps


def _record_task(args):
    shape, seed, cycles = args
    try:
        rng = random.Random(seed)
        steps = random_steps(shape, rng, cycles)
        return {"cfg": shape, "seed": seed, "cycles": run_schedule(shape, steps), "steps": steps}, None
    except Exception as ex:
        return {"cfg": shape, "seed": seed, "cycles": []}, (type(ex).__name__, traceback.format_exc()[-1500:])


TRACE_CFG = "SPECIFICATION Spec\nCHECK_DEADLOCK FALSE\n"


def validate(traces, timeout=1800):
    """-> rejects; every trace gets a verdict from PipelineTrace"""
    if not traces:
        return []
    fd, path = tempfile.mkstemp(prefix="vtr_", suffix=".json")
    try:
        with os.fdopen(fd, "w") as fh:
            json.dump([{"cfg": t["cfg"], "cycles": t["cycles"]} for t in traces], fh)
        res = tlc.run("PipelineTrace", TRACE_CFG, env={"TRACE_FILE": path}, workers=1, timeout=timeout)
    finally:
        os.unlink(path)
    tlc.require_ok(res, "PipelineTrace")
    acc, rej = tlc.tagged(res, "ACCEPT"), tlc.tagged(res, "REJECT")
    if len(acc) + len(rej) != len(traces):
        raise tlc.MachineryError(f"PipelineTrace: {len(acc)} accepted + {len(rej)} rejected != {len(traces)} traces")
    return rej, res
