"""C38 Encoders, multiplexers and selecting networks are correct
(spec: specs/fn/Encoders.tla, row oracle specs/fn/C38Rows.tla, laws specs/fn/C38Laws.tla).

OneHotMux (class, create) / one_hot_mux, MultiPriorityEncoder and RingMultiPriorityEncoder (ports,
create, create_simple), StableSelectingNetwork and the six classes of coding.py, tabulated for every
input valuation of the documented domain."""
import itertools

from vlib.table import Dut, Family, standard_check, replay_file

LEVEL = "exploration"
RAISED = 999999


def _outsig(m, value, name):
    from amaranth import Signal, Value
    v = Value.cast(value)
    o = Signal(len(v), name=name)
    m.d.comb += o.eq(v.as_unsigned() if v.shape().signed else v)
    return o


def _elem_shape(kind, w):
    from amaranth.lib import data
    if kind == "flat":
        return w
    return data.StructLayout({"a": 1, "b": w - 1}) if w > 1 else data.StructLayout({"a": 1})


# ---- one-hot multiplexers --------------------------------------------------------------------------
def _mux_rows(cfg):
    n, w, selw = cfg["n"], cfg["w"], cfg["selw"]
    nsel = (1 << (n * selw)) if cfg["priority"] else 1 + n * ((1 << selw) - 1)
    return nsel * (1 << (n * w)) * ((1 << w) if cfg["dflt"] == "sig" else 1)


def _mux_cfgs_for(fn):
    def cfgs(tier):
        budget = 12000 if tier == "thorough" else 1200
        if fn == "OneHotMux.create":          # thin wrapper around the class: smaller grid
            budget //= 3
        res = []
        k = 0
        for n in range(0 if fn == "OneHotMux" else 1, 8 if tier == "thorough" else 7):
            for w in (1, 2, 3):
                for prio in (0, 1):
                    for dflt in ("none", "sig") + (("const",) if fn != "OneHotMux" else ()):
                        k += 1
                        cfg = {"n": n, "w": w, "priority": prio, "dflt": dflt, "dc": (1 << w) - 2 if w > 1 else 1,
                               "kind": "struct" if (w >= 2 and k % 2) else "flat",
                               "selw": 2 if (fn != "OneHotMux" and n <= 3 and k % 3 == 0) else 1}
                        if n == 0 and dflt == "none" and fn != "OneHotMux":
                            continue
                        if _mux_rows(cfg) <= budget:
                            res.append(cfg)
        return res

    return cfgs


def _mux_domain(fn):
    def domain(cfg):
        n, w, selw = cfg["n"], cfg["w"], cfg["selw"]
        raws = []
        for raw in range(1 << (n * selw)):
            eff = [((raw >> (i * selw)) & ((1 << selw) - 1)) != 0 for i in range(n)]
            cnt = sum(eff)
            if not cfg["priority"] and cnt > 1:
                continue                      # undefined: several select bits without priority
            if cnt == 0 and cfg["dflt"] == "none":
                # one_hot_mux: undefined; OneHotMux.create with one input: the docstrings disagree
                if fn == "one_hot_mux" or (fn == "OneHotMux.create" and n <= 1):
                    continue
            raws.append(raw)
        dfl = range(1 << w) if cfg["dflt"] == "sig" else ((cfg["dc"],) if cfg["dflt"] == "const" else (0,))
        for raw in raws:
            for d in dfl:
                for vals in itertools.product(range(1 << w), repeat=n):
                    yield [raw, d] + list(vals)

    return domain


def _mux_build(fn):
    def build(cfg):
        from amaranth import Module, Signal
        from transactron.utils.amaranth_ext.functions import one_hot_mux
        from transactron.utils.amaranth_ext.elaboratables import OneHotMux
        n, w, selw = cfg["n"], cfg["w"], cfg["selw"]
        shape = _elem_shape(cfg["kind"], w)
        m = Module()
        raw = Signal(n * selw, name="sel")
        vals = [Signal(w, name=f"v{i}") for i in range(n)]
        dsig = Signal(w, name="dflt") if cfg["dflt"] == "sig" else None

        def cast(s):
            return s if isinstance(shape, int) else shape(s)

        if cfg["dflt"] == "sig":
            default = cast(dsig)
        elif cfg["dflt"] == "const":
            default = cfg["dc"] if isinstance(shape, int) else shape.from_bits(cfg["dc"])
        else:
            default = None
        sels = [raw[i * selw:(i + 1) * selw] for i in range(n)]
        if fn == "one_hot_mux":
            res = one_hot_mux([(sels[i], cast(vals[i])) for i in range(n)], default=default,
                              priority=bool(cfg["priority"]))
        elif fn == "OneHotMux.create":
            res = OneHotMux.create(m, [(sels[i], cast(vals[i])) for i in range(n)], default_input=default,
                                   priority=bool(cfg["priority"]))
        else:
            dut = OneHotMux(shape, n, priority=bool(cfg["priority"]), has_default=default is not None)
            m.submodules.dut = dut
            m.d.comb += dut.select.eq(raw)
            for i in range(n):
                m.d.comb += dut.inputs[i].eq(cast(vals[i]))
            if default is not None:
                m.d.comb += dut.default_input.eq(default)
            res = dut.output
        out = _outsig(m, res, "o")
        return Dut(m, [raw, dsig] + vals, [out])

    return build


# ---- priority encoders -----------------------------------------------------------------------------
def _enc_cfgs(tier, ring=False):
    res = []
    for w in (range(1, 9) if tier == "thorough" else range(1, 8)):
        for cnt in (1, 2, 3):
            if ring and ((tier == "quick" and w == 7) or (w == 8 and cnt != 3)):
                continue                      # 2^w * w^2 rows per table: width 7 in thorough only, 8 with one count
            res.append({"w": w, "cnt": cnt, "via": "ports"})
    for w, cnt in ((1, 2), (3, 2), (5, 3), (6, 1)):
        res.append({"w": w, "cnt": cnt, "via": "create"})
    for w in (2, 5):
        res.append({"w": w, "cnt": 1, "via": "create_simple"})
    return res


def _prio_build(cfg):
    from amaranth import Module, Signal, Cat
    from transactron.utils.amaranth_ext.elaboratables import MultiPriorityEncoder
    m = Module()
    x = Signal(cfg["w"], name="x")
    if cfg["via"] == "ports":
        dut = MultiPriorityEncoder(cfg["w"], cfg["cnt"])
        m.submodules.dut = dut
        m.d.comb += dut.input.eq(x)
        pairs = [(dut.outputs[k], dut.valids[k]) for k in range(cfg["cnt"])]
    elif cfg["via"] == "create":
        pairs = MultiPriorityEncoder.create(m, cfg["w"], x, cfg["cnt"], name="enc")
    else:
        pairs = [MultiPriorityEncoder.create_simple(m, cfg["w"], x)]
    outs = [_outsig(m, Cat(*[v for _, v in pairs]), "valids")] + [_outsig(m, o, f"o{k}") for k, (o, _) in enumerate(pairs)]
    return Dut(m, [x], outs, single=False)


def _ring_build(cfg):
    from amaranth import Module, Signal, Cat
    from transactron.utils.amaranth_ext.elaboratables import RingMultiPriorityEncoder
    m = Module()
    x = Signal(cfg["w"], name="x")
    first = Signal(range(cfg["w"]), name="first")
    last = Signal(range(cfg["w"]), name="last")
    if cfg["via"] == "ports":
        dut = RingMultiPriorityEncoder(cfg["w"], cfg["cnt"])
        m.submodules.dut = dut
        m.d.comb += [dut.input.eq(x), dut.first.eq(first), dut.last.eq(last)]
        pairs = [(dut.outputs[k], dut.valids[k]) for k in range(cfg["cnt"])]
    elif cfg["via"] == "create":
        pairs = RingMultiPriorityEncoder.create(m, cfg["w"], x, first, last, cfg["cnt"], name="enc")
    else:
        pairs = [RingMultiPriorityEncoder.create_simple(m, cfg["w"], x, first, last)]
    outs = [_outsig(m, Cat(*[v for _, v in pairs]), "valids")] + [_outsig(m, o, f"o{k}") for k, (o, _) in enumerate(pairs)]
    return Dut(m, [x, first, last], outs, single=False)


# ---- StableSelectingNetwork ------------------------------------------------------------------------
def _ssn_cfgs(tier):
    budget = 14 if tier == "thorough" else 11
    res = []
    k = 0
    for n in range(1, 9 if tier == "thorough" else 7):
        for w in (1, 2, 3):
            if n * (w + 1) <= budget:
                k += 1
                res.append({"n": n, "w": w, "data": "all", "shape": "struct" if (w > 1 and k % 2) else "flat"})
        res.append({"n": n, "w": 4, "data": "tags", "shape": "struct" if n % 2 else "flat"})
    return res


def _ssn_build(cfg):
    from amaranth import Module, Signal
    from transactron.utils.amaranth_ext.elaboratables import StableSelectingNetwork
    shape = _elem_shape(cfg["shape"], cfg["w"])
    m = Module()
    dut = StableSelectingNetwork(cfg["n"], shape)
    m.submodules.dut = dut
    valids = Signal(cfg["n"], name="valids")
    ds = [Signal(cfg["w"], name=f"d{i}") for i in range(cfg["n"])]
    m.d.comb += dut.valids.eq(valids)
    for i, d in enumerate(ds):
        m.d.comb += dut.inputs[i].eq(d if isinstance(shape, int) else shape(d))
    outs = [_outsig(m, dut.output_cnt, "cnt")] + [_outsig(m, dut.outputs[i], f"o{i}") for i in range(cfg["n"])]
    return Dut(m, [valids] + ds, outs, single=False)


def _ssn_domain(cfg):
    n, w = cfg["n"], cfg["w"]
    for valids in range(1 << n):
        if cfg["data"] == "tags":
            yield [valids] + [i + 1 for i in range(n)]
        else:
            for ds in itertools.product(range(1 << w), repeat=n):
                yield [valids] + list(ds)


# ---- coding.py -------------------------------------------------------------------------------------
def _code_cfgs(tier):
    return [{"w": w, "w_pow2": w & (w - 1) == 0} for w in (range(1, 10) if tier == "thorough" else range(1, 8))]


def _code_build(name):
    def build(cfg):
        from amaranth import Module
        from transactron.utils.amaranth_ext import coding
        m = Module()
        dut = getattr(coding, name)(cfg["w"])
        m.submodules.dut = dut
        if name in ("Encoder", "PriorityEncoder"):
            return Dut(m, [dut.i], [dut.n, dut.o], single=False)
        if name in ("Decoder", "PriorityDecoder"):
            return Dut(m, [dut.i, dut.n], [dut.o])
        return Dut(m, [dut.i], [dut.o])

    return build


FAMILIES = {}
for _n in ("one_hot_mux", "OneHotMux", "OneHotMux.create"):
    FAMILIES[_n] = Family(_n, cfgs=_mux_cfgs_for(_n), domain=_mux_domain(_n), build=_mux_build(_n),
                          on_raise=RAISED)
FAMILIES["MultiPriorityEncoder"] = Family("MultiPriorityEncoder", cfgs=_enc_cfgs, build=_prio_build, on_raise=[RAISED],
                                          domain=lambda cfg: ([x] for x in range(1 << cfg["w"])))
FAMILIES["RingMultiPriorityEncoder"] = Family(
    "RingMultiPriorityEncoder", cfgs=lambda tier: _enc_cfgs(tier, ring=True), build=_ring_build, on_raise=[RAISED],
    domain=lambda cfg: ([x, f, la] for x in range(1 << cfg["w"]) for f in range(cfg["w"]) for la in range(cfg["w"])))
FAMILIES["StableSelectingNetwork"] = Family("StableSelectingNetwork", cfgs=_ssn_cfgs, build=_ssn_build, on_raise=[RAISED],
                                            domain=_ssn_domain)
for _n in ("Encoder", "PriorityEncoder", "GrayEncoder", "GrayDecoder"):
    FAMILIES[_n] = Family(_n, cfgs=_code_cfgs, build=_code_build(_n),
                          on_raise=[RAISED] if "Gray" not in _n else RAISED,
                          domain=lambda cfg: ([x] for x in range(1 << cfg["w"])))
for _n in ("Decoder", "PriorityDecoder"):
    FAMILIES[_n] = Family(_n, cfgs=_code_cfgs, build=_code_build(_n), on_raise=RAISED,
                          domain=lambda cfg: ([i, n] for i in range(cfg["w"]) for n in (0, 1)))

LAWS = ["TypeOK", "MuxLaw", "PrioLaw", "RingLaw", "SelectLaw", "CodingLaw", "GrayLaw"]


def run(rep):
    standard_check(rep, __name__, FAMILIES, "C38Rows", "C38Laws", LAWS,
                   {"W": 6 if rep.tier == "thorough" else 5})
    rep.coverage["rule"] = (
        "every component x configuration (mux inputs 0-6 of 1-3 bits, flat and struct, with/without default and "
        "priority, 1- and 2-bit select signals; encoders widths 1-7 x outputs 1-3 via ports/create/create_simple; "
        "ring encoder all first/last; selecting network n 1-6 exhaustive data up to 11 input bits plus tagged "
        "data; coding.py widths 1-7; thorough: one size larger) x EVERY input valuation of the documented domain; "
        "distinct_nontrivial = distinct (component, configuration) tables with a non-zero output; "
        "states/transitions = exhaustive TLC run of the laws of the TLA+ definitions")
    rep.assumptions += [
        "undefined cases excluded as documented: several select bits without priority; no select bit without "
        "default for one_hot_mux (and single-input OneHotMux.create, whose docstrings disagree); ring encoder "
        "first/last < width; Decoder i < width; encoder outputs of invalid positions and selecting-network "
        "entries past the count are don't-cares"]


def replay(rep, path):
    replay_file(rep, FAMILIES, "C38Rows", path)
