"""C03 A transaction runs only when it is fully enabled (specs/core/TxnCore.tla, TxnCoreTrace.tla, TxnCoreMC.tla)."""
from vlib.core import core_check

OPTS = [dict(), dict(p_validate=0.6, p_enable=0.5), dict(p_nested=0.35, p_rel=0.8), dict(sched='rr', nested=False, rdep_rel=False, p_validate=0.4),
        # nested bodies / ready-dependent orderings reached only through wrapper methods
        dict(p_nested=0.5, max_m=4, max_t=3, p_rel=0.6, p_struct=0.3, _weight=2),
        # validation of arguments that were forwarded down a call chain
        dict(p_fwdarg=0.9, p_validate=0.7, p_enable=0.3, max_m=4, max_t=3, p_nonexcl=0.05, p_struct=0.3, _weight=2),
        # the same grammar built through the sugar API: Methods vectors, @def_methods over groups of sibling bodies
        # (ready per index), Methods.provide / Methods.__call__ aliases
        dict(p_sugar=1.0, sugar_mode="vec", max_m=6, max_t=3, p_struct=0.2, p_body_in_struct=0.0, p_validate=0.05, p_nonexcl=0.1, p_nested=0.3, p_alias=0.4)]


def run(rep):
    core_check(rep, "C03", [dict(o) for o in OPTS], 112, 2800, nontrivial_key="impl_designs_built")
    rep.coverage["rule"] = ("random designs from vlib/coregen.py's grammar built with the real API, every valuation of the "
                            "control inputs (or random ones when there are many), both directions bound by TxnCoreTrace; "
                            "clause RunImpliesEnabled (readiness of the whole static call tree, validation of would-be-active calls, run of ready-dependencies); distinct_nontrivial = built designs")


def replay(rep, path):
    from vlib.core import replay_case
    replay_case(rep, "C03", path)
