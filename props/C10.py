"""C10 Well-formed designs elaborate without combinational loops (specs/core/CombDeps*.tla)."""
import copy
import multiprocessing as mp
import os
import random

from vlib import coregen, core, judge, tlc

NPROCS = int(os.environ.get("VERIF_PROCS", "16"))


def fwd_validated_multi(D):
    """Does some method with two or more call sites forward its argument (directly or through further forwarding
    methods) to a method that validates its arguments?"""
    sites = D["sites"]
    ncallers = {}
    for s in sites:
        ncallers[s["callee"]] = ncallers.get(s["callee"], 0) + 1

    def reaches_validated(m, seen=()):
        for s in sites:
            if s["caller"] == m and s["argk"] == "f":
                c = s["callee"]
                if D["bodies"][c - 1]["validate"] or (c not in seen and reaches_validated(c, seen + (m,))):
                    return True
        return False

    def multi(m, seen=()):
        # m itself has several call sites, or is reached by forwarding from a method that has
        if ncallers.get(m, 0) >= 2:
            return True
        return any(s["callee"] == m and s["argk"] == "f" and s["caller"] not in seen and multi(s["caller"], seen + (m,))
                   for s in sites)

    return any(B["kind"] == "M" and multi(b) and reaches_validated(b) for b, B in enumerate(D["bodies"], start=1))


def make(args):
    seed, bad = args
    rng = random.Random(seed)
    if seed % 5 == 2 and not bad:
        d = coregen.ring_design(rng)
    elif seed % 3 == 1 and not bad:
        # argument-forwarding family: methods pass (a function of) their own argument on to callees, some of which
        # validate their arguments; several callers per method
        d = coregen.Gen(rng, p_rdyrun=0.15, p_rel=0.3, p_wit=0.0, p_fsm=0.05, p_nested=0.1, p_fwdarg=0.7, fwd_safe=False, p_validate=0.6,
                        max_t=4, max_m=3, p_struct=0.3).design()
    else:
        d = coregen.Gen(rng, p_rdyrun=0.45, p_badrun=0.7 if bad else 0.0, p_rel=0.35, p_wit=0.0, p_fsm=0.05,
                        p_nested=0.25).design()
    out = []
    for attempt in range(8):
        dd = copy.deepcopy(d)
        D = coregen.flatten(dd)
        try:
            cyc, msg = coregen.build(dd, netlist_only=True)
            out.append({"design": D, "raised": False, "cycle": bool(cyc), "msg": msg, "seed": seed, "bad": bad, "attempt": attempt,
                        "fwd_validated_multi": fwd_validated_multi(D)})
            break
        except Exception as ex:  # noqa: BLE001
            out.append({"design": D, "raised": True, "cycle": False, "msg": f"{type(ex).__name__}: {str(ex)[:200]}",
                        "seed": seed, "bad": bad, "attempt": attempt})
            if not d["sites"]:
                break
            core._shrink(d, rng, "")   # drop a call site / relation and retry
    return out


def make_cond(seed):
    """One design that uses condition() (vlib/condgen.py; validated callees, conditional call chains)."""
    from vlib import condgen
    rng = random.Random(seed)
    d = condgen.gen_condition(rng, validate=True)
    cond_hop = any(h["kind"] != "plain" for h in d.get("chain", []))
    val_branch = any(d["targets"][t - 1].get("validate") for br in d["branches"] for t in br["calls"])
    flags = {"conditionally_called_parent": cond_hop, "branch_callee_validates": val_branch}
    try:
        cyc, msg = condgen.build_condition(d, netlist_only=True)
        return {"design": d, "raised": False, "cycle": bool(cyc), "msg": msg, "seed": seed, **flags}
    except Exception as ex:  # noqa: BLE001
        return {"design": d, "raised": True, "cycle": False, "msg": f"{type(ex).__name__}: {str(ex)[:300]}", "seed": seed, **flags}


def run_cond(rep, n):
    with mp.Pool(NPROCS) as pool:
        cases = pool.map(make_cond, [rep.seed * 100019 + i for i in range(n)], chunksize=4)
    r, acc, rej, dev = judge.judge("CondDepsTrace", [{"design": c["design"], "raised": c["raised"], "cycle": c["cycle"]} for c in cases])
    for x in rej:
        c = cases[x["tid"] - 1]
        rep.violation({"component": "condition", "cfg": {"seed": c["seed"], "conditionally_called_parent": c["conditionally_called_parent"],
                                                         "branch_callee_validates": c["branch_callee_validates"]},
                       "clauses": sorted(x["clauses"]), "what": c["msg"], "design": c["design"]})
    cov = rep.coverage
    cov["condition_designs"] = len(cases)
    cov["condition_designs_elaborated"] = sum(1 for c in cases if not c["raised"])
    cov["condition_designs_with_validated_branch_callee"] = sum(1 for c in cases if c["branch_callee_validates"])
    cov["condition_designs_with_conditional_call_chain"] = sum(1 for c in cases if c["conditionally_called_parent"])
    cov["condition_model_edges"] = sum(a.get("edges", 0) for a in acc)
    return len(cases), r


def run(rep):
    thorough = rep.tier == "thorough"
    n = 3000 if thorough else 220
    with mp.Pool(NPROCS) as pool:
        res = pool.map(make, [(rep.seed * 100003 + i, i % 4 == 0) for i in range(n)], chunksize=4)
    cases = [c for r in res for c in r]
    r, acc, rej, dev = judge.judge("CombDepsTrace", [{"design": c["design"], "raised": c["raised"], "cycle": c["cycle"]} for c in cases])
    for x in rej:
        c = cases[x["tid"] - 1]
        cl = set(x["clauses"])
        if cl & {"WellFormedImpliesAcyclic", "ModelAcyclic"}:
            rep.violation({"component": "core", "cfg": {"seed": c["seed"], "attempt": c["attempt"],
                                                       "fwd_validated_multi": bool(c.get("fwd_validated_multi"))},
                           "clauses": sorted(cl & {"WellFormedImpliesAcyclic", "ModelAcyclic"}), "what": c["msg"],
                           "design": c["design"]})
    cov = rep.coverage
    wf = [a for a in acc if a.get("wf")]
    with_dep = sum(1 for a in wf if not cases[a["tid"] - 1]["raised"]
                   and any(b["rdyrun"] for b in cases[a["tid"] - 1]["design"]["bodies"]))
    ctl = [c for c in cases if c["bad"] and not c["raised"]]
    cov["designs"] = len(cases)
    cov["wellformed_elaborated"] = sum(1 for a in wf if not cases[a["tid"] - 1]["raised"])
    cov["wellformed_with_run_dependent_readiness"] = with_dep
    cov["negative_controls_built"] = len(ctl)
    cov["negative_controls_with_cycle_detected"] = sum(1 for c in ctl if c["cycle"])
    cov["rejections_attributed_to_other_properties"] = sum(1 for x in rej if set(x["clauses"]) == {"RaisedIffIllFormed"})
    ncond, rc = run_cond(rep, 1200 if thorough else 120)
    cov["traces_validated_against_impl"] = len(cases) + ncond
    cov["states"] = r.distinct + rc.distinct
    cov["transitions"] = r.generated + rc.generated
    cov["model_orders_checked"] = sum(a.get("orders", 0) for a in wf)
    cov["evaluations"] = len(cases) + ncond
    cov["distinct_nontrivial"] = with_dep
    cov["rule"] = ("random designs whose readiness reads run(a) of a body declared earlier (nesting / schedule_before), built with "
                   "the real API and lowered to Amaranth's netlist (bit-level CombinationalCycle check); TLC checks for every "
                   "admissible priority order that the model's dependency graph is acyclic; every 4th seed breaks the rule on "
                   "purpose (negative control: the detector must fire on some); distinct_nontrivial = rule-following designs "
                   "with run-dependent readiness that elaborated")
    if cov["negative_controls_with_cycle_detected"] == 0:
        rep.machinery("no negative control produced a combinational cycle: the netlist detector is not exercised")
    if with_dep == 0:
        rep.machinery("no well-formed design with run-dependent readiness was built")
    for c in cases:
        if not c["raised"] and any(b["rdyrun"] for b in c["design"]["bodies"]):
            rep.sample({"design": c["design"], "cycle_found": c["cycle"]}, limit=1)
            break
    rep.assumptions += ["combinational cycles are decided structurally on Amaranth's netlist (false loops count as loops)",
                        "amaranth.hdl._ir.build_netlist is the detector (Amaranth private API, not transactron's)"]


def replay(rep, path):
    """Regenerate the design of the stored case from its seed, elaborate it with the current /repo and judge again."""
    import json
    d = json.load(open(path))
    if d.get("component") == "condition":
        c = make_cond(d["cfg"]["seed"])
        r, acc, rej, dev = judge.judge("CondDepsTrace", [{"design": c["design"], "raised": c["raised"], "cycle": c["cycle"]}])
        for x in rej:
            rep.violation({"component": "condition", "cfg": d["cfg"], "clauses": sorted(x["clauses"]), "what": c["msg"], "design": c["design"]})
    else:
        seed = d["cfg"]["seed"]
        cases = make((seed, (seed - rep_base(seed)) % 4 == 0))
        c = cases[min(d["cfg"].get("attempt", 0), len(cases) - 1)]
        r, acc, rej, dev = judge.judge("CombDepsTrace", [{"design": c["design"], "raised": c["raised"], "cycle": c["cycle"]}])
        for x in rej:
            cl = set(x["clauses"]) & {"WellFormedImpliesAcyclic", "ModelAcyclic"}
            if cl:
                rep.violation({"component": "core", "cfg": d["cfg"], "clauses": sorted(cl), "what": c["msg"], "design": c["design"]})
    rep.add("traces_validated_against_impl", 1)


def rep_base(seed):
    """seeds are rep.seed * 100003 + i (i < 100003)"""
    return (seed // 100003) * 100003
