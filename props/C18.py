"""C18 Method transformers and connectors implement their documented function
(spec: specs/lib/Transformers.tla)."""
import itertools
import random

from vlib import connharness as ch

W_MC = 2


from amaranth import Elaboratable as _Elab  # noqa: E402


def C(kind, n=1, n2=0, mode="-", d=0, w=W_MC, cw=0):
    return {"kind": kind, "n": n, "n2": n2, "mode": mode, "d": d, "w": w, "cw": cw}


class Bank:
    """Harness target methods (transactron.lib.adapters.Adapter): readiness and returned value
    are harness inputs, execution and argument are witnesses."""

    def __init__(self, w):
        from transactron.utils.data_repr import data_layout
        self.lay = data_layout(w)
        self.adapters = []
        self.pub = {}
        self.inputs = {}

    def add(self, has_in=True, has_out=True, out_layout=None, validate=False):
        from transactron.lib.adapters import Adapter
        if validate:
            a = ValTarget(self.lay)      # a target that refuses the all-zero argument (validate_arguments)
        else:
            a = Adapter(i=self.lay if has_in else [], o=(out_layout or self.lay) if has_out else [])
        self.adapters.append(a)
        return a

    def extra(self, m):
        for k, a in enumerate(self.adapters):
            m.submodules[f"target{k}"] = a

    def single(self, a, prefix, has_in=True, has_out=True):
        self.inputs[prefix + "rdy"] = a.en
        if has_out:
            self.inputs[prefix + "val"] = a.data_in.as_value()
        self.pub[prefix + "ran"] = a.done
        if has_in:
            self.pub[prefix + "arg"] = a.data_out.as_value()

    def many(self, adapters, suffix="", has_in=True, has_out=True):
        self.inputs["rdy" + suffix] = [a.en for a in adapters]
        if has_out:
            self.inputs["val" + suffix] = [a.data_in.as_value() for a in adapters]
        self.pub["ran" + suffix] = [a.done for a in adapters]
        if has_in:
            self.pub["arg" + suffix] = [a.data_out.as_value() for a in adapters]


class ValTarget(_Elab):
    """Harness target with the interface of an Adapter (iface, en, data_in = returned value, data_out = argument,
    done) whose method is defined with validate_arguments: it accepts only non-zero data."""

    def __init__(self, lay):
        from amaranth import Signal
        from transactron import Method
        self.iface = Method(i=lay, o=lay)
        self.en = Signal()
        self.data_in = Signal(self.iface.layout_out)
        self.data_out = Signal(self.iface.layout_in)
        self.done = Signal()

    def elaborate(self, platform):
        from transactron import TModule, def_method
        m = TModule()

        @def_method(m, self.iface, ready=self.en, validate_arguments=lambda data: data != 0)
        def _(arg):
            m.d.top_comb += self.data_out.eq(arg)
            m.d.comb += self.done.eq(1)
            return self.data_in

        return m


def build(cfg):
    from amaranth import Signal
    from transactron.lib import transformers as T
    from transactron.lib.connectors import ConnectTrans, CrossbarConnectTrans
    from transactron.utils.data_repr import data_layout
    from amaranth.lib.data import StructLayout
    w, n, kind, mode = cfg["w"], cfg["n"], cfg["kind"], cfg["mode"]
    lay = data_layout(w)
    b = Bank(w)
    methods = {}
    if kind == "connect":
        t1, t2 = b.add(validate=(mode == "val")), b.add(validate=(mode == "val"))
        dut = ConnectTrans.create(t1.iface, t2.iface)
        b.inputs.update({"r1": t1.en, "r2": t2.en, "v1": t1.data_in.as_value(), "v2": t2.data_in.as_value()})
        b.pub.update({"ran1": t1.done, "arg1": t1.data_out.as_value(), "ran2": t2.done, "arg2": t2.data_out.as_value()})
    elif kind == "crossbar":
        g1 = [b.add() for _ in range(n)]
        g2 = [b.add() for _ in range(cfg["n2"])]
        dut = CrossbarConnectTrans.create([a.iface for a in g1], [a.iface for a in g2])
        b.many(g1, "1")
        b.many(g2, "2")
    elif kind == "map":
        t = b.add()
        b.single(t, "t")
        if mode == "fun":
            def itr(m, v):
                s = Signal.like(v)
                m.d.comb += s.data.eq(v.data + 1)
                return s

            def otr(_, v):
                return {"data": 2 * v.data + 1}

            dut = T.MethodMap.create(t.iface, i_transform=(lay, itr), o_transform=(lay, otr))
        else:
            ti, to = b.add(), b.add()
            b.single(ti, "i")
            b.single(to, "o")
            dut = T.MethodMap.create(t.iface, i_transform=(lay, ti.iface), o_transform=(lay, to.iface))
        methods = {"call": dut.method}
    elif kind == "filter":
        t = b.add()
        b.single(t, "t")
        default = {"data": cfg["d"]} if cfg["d"] else None
        if mode == "meth":
            tc = b.add(out_layout=data_layout(1))
            b.single(tc, "c")
            dut = T.MethodFilter.create(t.iface, tc.iface, default)
        else:
            # cw = 1: a multi-bit condition value whose bit 0 is always clear (non-zero means true)
            cf = (lambda m, v: v.data & ~1) if cfg.get("cw") else (lambda m, v: v.data[0])
            dut = T.MethodFilter.create(t.iface, cf, default, use_condition=(mode == "cond"))
        methods = {"call": dut.method}
    elif kind == "product":
        ts = [b.add() for _ in range(n)]
        b.many(ts)
        comb = None
        if mode == "sum":
            def comb_f(m, vs):
                acc = 0
                for v in vs:
                    acc = acc + v.data
                return {"data": acc}
            comb = (lay, comb_f)
        dut = T.MethodProduct.create([a.iface for a in ts], comb)
        methods = {"call": dut.method}
    elif kind == "tryproduct":
        ts = [b.add() for _ in range(n)]
        b.many(ts)
        comb = None
        if mode in ("sd", "sdx"):
            olay = StructLayout({"s": n, "d": w})

            def comb_f(m, vs):
                from amaranth import Cat, Mux
                acc = 0
                for ok, v in vs:
                    acc = acc + Mux(ok, v.data, 0)
                return {"s": Cat(*[ok for ok, _ in vs]), "d": acc}
            comb = (olay, comb_f)
        dut = T.MethodTryProduct.create([a.iface for a in ts], comb)
        methods = {"call": dut.method}
        if mode == "sdx":
            # a third-party transaction of the harness calls target 1 directly (request / argument are inputs)
            from transactron import Transaction
            xreq, xarg, xran = Signal(name="xreq"), Signal(w, name="xarg"), Signal(name="xran")
            b.inputs.update({"xreq": xreq, "xarg": xarg})
            b.pub["xran"] = xran
            base_extra = b.extra

            def extra(m, _t=ts[0]):
                base_extra(m)
                with Transaction(name="third_party").body(m, ready=xreq):
                    _t.iface(m, data=xarg)
                    m.d.comb += xran.eq(1)
            return dut, methods, b.pub, extra, b.inputs
    elif kind == "nonexcl":
        t = b.add(has_in=(mode == "arg"))
        b.single(t, "t", has_in=(mode == "arg"))
        dut = T.NonexclusiveWrapper.create(t.iface)
        methods = {f"c{i + 1}": dut.method for i in range(n)}
    elif kind == "collector":
        ts = [b.add(has_in=False) for _ in range(n)]
        b.many(ts, has_in=False)
        dut = T.Collector.create([a.iface for a in ts])
        methods = {"get": dut.method}
    else:
        raise ValueError(kind)
    return dut, methods, b.pub, b.extra, b.inputs


def methods(cfg):
    k = cfg["kind"]
    if k in ("connect", "crossbar"):
        return []
    if k == "nonexcl":
        return [f"c{i + 1}" for i in range(cfg["n"])]
    if k == "collector":
        return ["get"]
    return ["call"]


def no_arg(cfg):
    return cfg["kind"] == "collector" or (cfg["kind"] == "nonexcl" and cfg["mode"] == "noarg")


PAIRS = [("ran1", "arg1"), ("ran2", "arg2"), ("tran", "targ"), ("iran", "iarg"), ("oran", "oarg"),
         ("cran", "carg"), ("ran", "arg")]


def post(cfg, line):
    """The argument seen by a target that did not execute is a don't-care: normalise to 0.
    NonexclusiveWrapper without argument has no targ signal: add the constant 0 the spec uses."""
    p = line["pub"]
    for r, a in PAIRS:
        if r in p and a in p:
            if isinstance(p[r], list):
                p[a] = [x if rr else 0 for rr, x in zip(p[r], p[a])]
            elif not p[r]:
                p[a] = 0
    if cfg["kind"] == "nonexcl" and cfg["mode"] == "noarg":
        p["targ"] = 0
    if cfg["kind"] == "filter" and cfg["mode"] == "cond":
        # Named harness deviation: a transaction that calls a method containing `condition()` is
        # rewritten by the manager's simultaneous-alternatives transformation (it becomes a method
        # of merged transactions) and its public `runnable` output is left undriven (reads 0 even
        # in cycles where it runs - measured).  For the requested, conflict-free harness
        # transaction run = runnable, so `run` is used as the "can go through" observation here.
        line["call"]["cal"] = line["call"]["done"]


def in_names(cfg):
    """[(input name, length or None, is_value)] of the configuration."""
    k, n, mode = cfg["kind"], cfg["n"], cfg["mode"]
    if k == "connect":
        return [("r1", None, 0), ("r2", None, 0), ("v1", None, 1), ("v2", None, 1)]
    if k == "crossbar":
        return [("rdy1", n, 0), ("val1", n, 1), ("rdy2", cfg["n2"], 0), ("val2", cfg["n2"], 1)]
    if k == "map" and mode == "meth":
        return [("trdy", None, 0), ("tval", None, 1), ("irdy", None, 0), ("ival", None, 1), ("ordy", None, 0), ("oval", None, 1)]
    if k == "filter" and mode == "meth":
        return [("trdy", None, 0), ("tval", None, 1), ("crdy", None, 0), ("cval", None, 2)]
    if k in ("map", "filter", "nonexcl"):
        return [("trdy", None, 0), ("tval", None, 1)]
    if k == "tryproduct" and mode == "sdx":
        return [("rdy", n, 0), ("val", n, 1), ("xreq", None, 0), ("xarg", None, 1)]
    return [("rdy", n, 0), ("val", n, 1)]


class Tracker:
    """Collector: hands out fresh values so that loss / duplication is visible; NonexclusiveWrapper
    with argument: at most one call site is requested per cycle (documented assumption)."""

    def __init__(self, cfg):
        self.cfg = cfg
        self.ctr = 0

    def update(self, line):
        pass

    def fresh(self):
        self.ctr += 1
        return self.ctr % (1 << self.cfg["w"])

    def fix(self, step, rng):
        if self.cfg["kind"] == "nonexcl" and self.cfg["mode"] == "arg":
            req = [m for m in methods(self.cfg) if m in step]
            if len(req) > 1:
                keep = rng.choice(req)
                for m in req:
                    if m != keep:
                        step["_args"][m] = step.pop(m)
        return step


def gen_in(cfg, rng, tr, ph):
    res = {}
    top = 1 << cfg["w"]
    for name, ln, isval in in_names(cfg):
        def one():
            if isval == 0:
                return 1 if rng.random() < ph["p"] else 0
            if isval == 2:
                return rng.randrange(2)
            if cfg["kind"] == "collector":
                return tr.fresh()
            return rng.randrange(top)
        res[name] = one() if ln is None else [one() for _ in range(ln)]
    return res


COMP = ch.IOComponent(
    spec="Transformers", name="transformers/connectors", build=build, methods=methods,
    has_arg=lambda m: m in ("call", "c1", "c2", "c3"),
    gen_arg=lambda cfg, m, rng, tr: None if no_arg(cfg) else rng.randrange(1 << cfg["w"]),
    gen_in=gen_in, tracker=Tracker, post=post, module=__name__, has_ghost=True,
    in_phase=lambda cfg, rng: {"p": rng.choice([0.2, 0.5, 0.8, 1.0])},
    # a second caller for the exposed method of the transformers (not for NonexclusiveWrapper, whose method is
    # documented nonexclusive, nor for MethodFilter(use_condition=True), whose method is single_caller)
    shadow=lambda cfg: [] if (cfg["kind"] == "nonexcl" or (cfg["kind"] == "filter" and cfg.get("mode") == "cond")) else methods(cfg),
)


# ---------------------------------------------------------------------------------------
# exhaustive per-cycle valuations of the combinational kinds

def valuations(cfg):
    """Every (request set with arguments, input valuation) of a combinational configuration."""
    top = 1 << cfg["w"]
    ms = methods(cfg)
    if cfg["kind"] == "nonexcl" and cfg["mode"] == "arg":
        reqs = [{}] + [{m: a} for m in ms for a in range(top)]
    elif no_arg(cfg):
        reqs = [{m: None for m in sub} for k in range(len(ms) + 1) for sub in itertools.combinations(ms, k)]
    elif ms:
        reqs = [{}] + [{"call": a} for a in range(top)]
    else:
        reqs = [{}]
    doms = []
    names = []
    for name, ln, isval in in_names(cfg):
        d = range(2) if isval in (0, 2) else range(top)
        if ln is None:
            doms.append(d)
            names.append((name, None))
        else:
            for i in range(ln):
                doms.append(d)
                names.append((name, i))
    count = len(reqs)
    for d in doms:
        count *= len(d)
    return reqs, names, doms, count


def exhaustive_schedule(cfg, rng, limit):
    reqs, names, doms, count = valuations(cfg)
    allv = None
    if count <= limit:
        allv = [(r, v) for r in reqs for v in itertools.product(*doms)]
        rng.shuffle(allv)
    else:
        allv = [(rng.choice(reqs), tuple(rng.choice(d) for d in doms)) for _ in range(limit)]
    sched = []
    for r, v in allv:
        inp = {}
        for (name, i), x in zip(names, v):
            if i is None:
                inp[name] = x
            else:
                inp.setdefault(name, []).append(x)
        step = dict(r)
        step["_in"] = inp
        sched.append(step)
    return sched, count <= limit, count


def collector_histories(cfg, length):
    """All readiness / get-request histories of `length` cycles from reset; target i returns the
    fresh value (cycle * n + i) so that every collected result is distinguishable."""
    n = cfg["n"]
    per = [(r, g) for r in itertools.product((0, 1), repeat=n) for g in (0, 1)]
    jobs = []
    for hist in itertools.product(per, repeat=length):
        sched = []
        for t, (r, g) in enumerate(hist):
            step = {"get": None} if g else {}
            step["_in"] = {"rdy": list(r), "val": [(t * n + i + 1) % (1 << cfg["w"]) for i in range(n)]}
            sched.append(step)
        jobs.append({"kind": "exhaustive-history", "schedule": sched})
    return jobs


def trace_cfgs(thorough):
    w = 2
    cfgs = [C("connect", 1, 1, w=w), C("connect", 1, 1, mode="val", w=w), C("connect", 1, 1, mode="val", w=3),
            C("crossbar", 1, 2, w=w), C("crossbar", 2, 2, w=w), C("crossbar", 3, 2, w=w), C("crossbar", 2, 3, w=w),
            C("crossbar", 3, 3, w=w),
            C("map", mode="fun", w=w), C("map", mode="fun", w=3), C("map", mode="meth", w=w),
            C("filter", mode="if", w=w), C("filter", mode="if", d=3, w=w), C("filter", mode="cond", w=w),
            C("filter", mode="cond", d=3, w=w), C("filter", mode="cond", d=5, w=3), C("filter", mode="meth", d=3, w=w),
            C("filter", mode="if", d=3, w=w, cw=1), C("filter", mode="cond", d=3, w=w, cw=1), C("filter", mode="cond", d=5, w=3, cw=1),
            C("product", 1, mode="first", w=w), C("product", 2, mode="first", w=w), C("product", 2, mode="sum", w=w),
            C("product", 3, mode="sum", w=w), C("product", 3, mode="first", w=3),
            C("tryproduct", 1, mode="sd", w=w), C("tryproduct", 2, mode="sd", w=w), C("tryproduct", 2, mode="none", w=w),
            C("tryproduct", 3, mode="sd", w=w), C("tryproduct", 3, mode="sd", w=3),
            C("tryproduct", 1, mode="sdx", w=w), C("tryproduct", 2, mode="sdx", w=w), C("tryproduct", 3, mode="sdx", w=3),
            C("nonexcl", 2, mode="arg", w=w), C("nonexcl", 3, mode="arg", w=3), C("nonexcl", 2, mode="noarg", w=w),
            C("nonexcl", 3, mode="noarg", w=w)]
    return cfgs


def run(rep):
    thorough = rep.tier == "thorough"
    limit = 20000 if thorough else 1500
    rng = random.Random(rep.seed)
    jobs = []
    full = sampled = 0
    space = 0
    for cfg in trace_cfgs(thorough):
        sched, complete, count = exhaustive_schedule(cfg, rng, limit)
        full += 1 if complete else 0
        sampled += 0 if complete else 1
        space += len(sched)
        jobs.append((cfg, [{"kind": "valuations", "schedule": sched}]))
    for n, ln in ((1, 5 if thorough else 4), (2, 4 if thorough else 3), (3, 3 if thorough else 2)):
        cfg = C("collector", n, w=4)
        jobs.append((cfg, collector_histories(cfg, ln)))
    for ci, (n, w) in enumerate(((1, 3), (2, 3), (3, 4), (3, 5))):
        cfg = C("collector", n, w=w)
        jobs.append((cfg, [{"kind": "random", "seed": rep.seed * 100003 + ci * 1009 + k, "cycles": 400}
                           for k in range(12 if thorough else 3)]))
    traces = ch.standard_check(COMP, rep, jobs_by_cfg=jobs, split=4)
    transfers = 0
    for t in traces:
        for ln in t["cycles"]:
            for k, v in ln["pub"].items():
                if k.startswith("ran") or k.endswith("ran"):
                    transfers += sum(v) if isinstance(v, list) else v
    rep.coverage["configs_with_all_valuations"] = full
    rep.coverage["configs_with_sampled_valuations"] = sampled
    rep.coverage["valuations_driven"] = space
    rep.coverage["target_executions_observed"] = transfers
    rep.coverage["rule"] = (
        "MC: 23 configurations of the 8 components with 2-bit data, every request set x target-readiness pattern x "
        "target return values in every state (combinational kinds: one state; Collector: its Forwarder), history "
        "pass for the Collector (collected/delivered sequences up to 3); S->C: every (state, requests, inputs) group "
        "driven into the real circuit (crossbar / collector scheduler choices are selected by the implementation); "
        "C->S: per configuration every valuation (request, argument, readiness pattern, return values) in shuffled "
        "order when there are <= %d, else a seeded sample; Collector: all readiness/get histories of length 2-5 "
        "with fresh values + random 400-cycle histories; evaluations = target executions observed; "
        "distinct_nontrivial = distinct valuations driven + model edge groups replayed" % limit)
    rep.coverage["evaluations"] = transfers
    rep.coverage["distinct_nontrivial"] = space + rep.coverage.get("edge_groups_replayed_into_impl", 0)
    rep.assumptions += [
        "Amaranth Python simulator is faithful to the elaborated netlist",
        "targets are harness methods (transactron.lib.adapters.Adapter); the argument seen by a target that "
        "did not execute is not compared",
        "NonexclusiveWrapper with an argument is called from at most one call site per cycle (its documented assumption)",
        "which maximal set of ready pairs a crossbar serves / which ready target a Collector takes is not asserted",
    ]


def replay(rep, path):
    ch.replay_file(COMP, rep, path)
