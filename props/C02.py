"""C02 Explicitly conflicting transactions and methods never run together (specs/core/TxnCore.tla, TxnCoreTrace.tla, TxnCoreMC.tla)."""
from vlib.core import core_check

OPTS = [dict(p_rel=1.0), dict(p_rel=1.0, max_m=3, max_t=3, p_nested=0.05), dict(p_rel=1.0, sched='rr', nested=False, rdep_rel=False),
        # relations declared on forwarding (provide) methods
        dict(p_rel=1.0, p_relalias=0.7, max_m=3, max_t=3, p_nested=0.05, _weight=3),
        # related bodies defined under alternatives of control structures of two different modules
        dict(p_rel=0.5, p_dblrel=1.0, max_m=3, max_t=4, p_nested=0.05, _weight=3),
        dict(p_rel=0.5, p_two_mods=1.0, p_xmod=1.0, p_body_in_struct=0.3, max_m=3, max_t=3, p_nested=0.0, p_struct=0.2, _weight=2)]


def run(rep):
    core_check(rep, "C02", [dict(o) for o in OPTS], 120, 3000, nontrivial_key="impl_with_conflict_rel")
    rep.coverage["rule"] = ("random designs from vlib/coregen.py's grammar built with the real API, every valuation of the "
                            "control inputs (or random ones when there are many), both directions bound by TxnCoreTrace; "
                            "clauses ConflictNeverJoint (+SameTxn variant) on observed run signals of the related bodies; distinct_nontrivial = built designs with an add_conflict relation")


def replay(rep, path):
    from vlib.core import replay_case
    replay_case(rep, "C02", path)
