"""C32 Latency measurers record true latencies (spec: specs/lib/Latency.tla, histogram operators of
specs/lib/Metrics.tla).

FIFOLatencyMeasurer / WideFIFOLatencyMeasurer / TaggedLatencyMeasurer: start/stop histories within
the slot counts; the histogram registers are compared with the model in every cycle (PubMatches):
exactly one sample per finished event, equal to stop cycle - start cycle.  The driver keeps every
latency <= max_latency (precondition of the property; `Assume` in the spec).
"""
import random

from vlib import metricsharness as mh
from vlib.comp import Component, model_check, record_traces, trace_stats

NAMES = {"fifo": "FIFOLatencyMeasurer", "wide": "WideFIFOLatencyMeasurer", "tagged": "TaggedLatencyMeasurer"}


def build(cfg):
    from transactron.lib.metrics import FIFOLatencyMeasurer, WideFIFOLatencyMeasurer, TaggedLatencyMeasurer
    mh.enable_metrics(cfg["en"])
    kind, ways = cfg["kind"], cfg["ways"]
    if kind == "fifo":
        d = FIFOLatencyMeasurer("verif.lat", "l", slots_number=cfg["slots"], max_latency=cfg["maxlat"], ways=ways)
    elif kind == "wide":
        d = WideFIFOLatencyMeasurer("verif.lat", "l", slots_number=cfg["slots"], max_latency=cfg["maxlat"],
                                    max_start_count=cfg["msc"], max_stop_count=cfg["mstop"], ways=ways)
    else:
        d = TaggedLatencyMeasurer("verif.lat", "l", slots_number=cfg["slots"], max_latency=cfg["maxlat"], ways=ways)
    h = d.histogram
    pub = {"count": h.count.value, "sum": h.sum.value, "min": h.min.value, "max": h.max.value}
    for i, b in enumerate(h.buckets):
        pub[f"b{i + 1}"] = b.value
    meths = {}
    for k in range(ways):
        meths[f"start{k}"] = d.start[k]
        meths[f"stop{k}"] = d.stop[k]
    return d, meths, pub


def methods(cfg):
    out = []
    for k in range(cfg["ways"]):
        out += [f"start{k}", f"stop{k}"]
    return out


class Tracker:
    """Driver-side abstract state (ages of the in-flight events) used to keep the run inside
    the property's quantifier: every event is stopped before its age exceeds max_latency, the
    tagged measurer gets unique slot tags."""

    def __init__(self, cfg):
        self.cfg = cfg
        self.q = [[] for _ in range(cfg["ways"])]       # ages, oldest first
        self.sl = [-1] * cfg["slots"]                   # tagged: age per slot, -1 = free
        self.forced = 0

    def update(self, line):
        cfg = self.cfg
        if not cfg["en"]:
            return
        if cfg["kind"] == "tagged":
            stopped = [line[f"stop{k}"]["arg"] for k in range(cfg["ways"]) if line[f"stop{k}"]["done"]]
            started = [line[f"start{k}"]["arg"] for k in range(cfg["ways"]) if line[f"start{k}"]["done"]]
            for s in stopped:
                self.sl[s] = -1
            self.sl = [a + 1 if a >= 0 else a for a in self.sl]
            for s in started:
                self.sl[s] = 1
            return
        wide = cfg["kind"] == "wide"
        for k in range(cfg["ways"]):
            sp, stt = line[f"stop{k}"], line[f"start{k}"]
            if sp["done"]:
                n = min(sp["arg"] if wide else 1, len(self.q[k]), cfg["mstop"])
                self.q[k] = self.q[k][n:]
            self.q[k] = [a + 1 for a in self.q[k]]
            if stt["done"]:
                self.q[k] += [1] * (stt["arg"] if wide else 1)

    def fix(self, step, rng):
        cfg = self.cfg
        if not cfg["en"]:
            return step
        args = step.setdefault("_args", {})
        ml, ways = cfg["maxlat"], cfg["ways"]
        if cfg["kind"] == "tagged":
            taken = [s for s, a in enumerate(self.sl) if a >= 0]
            forced = [s for s in taken if self.sl[s] >= ml]
            free = [s for s, a in enumerate(self.sl) if a < 0]
            rng.shuffle(free)
            stop_ways = [k for k in range(ways) if f"stop{k}" in step]
            others = [k for k in range(ways) if k not in stop_ways]
            rng.shuffle(others)
            while len(stop_ways) < len(forced):
                stop_ways.append(others.pop())
            rng.shuffle(stop_ways)
            optional = [s for s in taken if s not in forced]
            rng.shuffle(optional)
            self.forced += len(forced)
            pool = forced + optional
            for k in range(ways):
                step.pop(f"stop{k}", None)
            for k in stop_ways:
                if pool:
                    step[f"stop{k}"] = pool.pop(0)
            for k in range(ways):
                if f"start{k}" in step:
                    if free:
                        step[f"start{k}"] = free.pop()
                    else:
                        del step[f"start{k}"]
            for k in range(ways):
                for nm in (f"start{k}", f"stop{k}"):
                    if nm in step:
                        args.pop(nm, None)
                    else:
                        args[nm] = rng.randrange(cfg["slots"])
            return step
        wide = cfg["kind"] == "wide"
        mstop = cfg["mstop"]
        for k in range(ways):
            q = self.q[k]
            level = len(q)
            dl = [ml - a for a in q]                      # cycles left (0: must stop now)
            cmin = None
            for c in range(0, min(mstop, level) + 1):
                if all(j + 1 <= mstop * dl[c + j] for j in range(level - c)):
                    cmin = c
                    break
            if cmin is None:
                # only reachable when the implementation did not do what the tracker inferred from the
                # observed calls; keep driving, the trace spec names the failing clause
                cmin = min(mstop, level)
            sname, tname = f"stop{k}", f"start{k}"
            if cmin > 0:
                self.forced += 1
                if sname not in step:
                    step[sname] = None
            popped = 0
            if sname in step:
                if wide:
                    hi = mstop if rng.random() < 0.1 else max(cmin, min(mstop, level))
                    cnt = rng.randint(cmin, hi) if hi >= cmin else cmin
                    if level == 0:
                        cnt = rng.randint(0, mstop)
                    step[sname] = cnt
                    popped = min(cnt, level, mstop)
                else:
                    step[sname] = None
                    popped = min(1, level)
            room = mstop * ml - (level - popped)          # new events must be stoppable in time
            if tname in step:
                if wide:
                    cnt = rng.randint(0, cfg["msc"])
                    cnt = min(cnt, max(room, 0))
                    step[tname] = cnt
                else:
                    step[tname] = None
                    if room < 1:
                        del step[tname]
            for nm, hi in ((tname, cfg["msc"]), (sname, mstop)):
                if nm in step:
                    args.pop(nm, None)
                elif wide:
                    args[nm] = rng.randint(0, hi)
        return step


def gen_arg(cfg, m, rng, tracker):
    return None          # arguments are chosen by Tracker.fix


def proj(cfg, st, obs):
    h = st["hist"]
    mod = 1 << cfg["rw"]
    exp = {k: h[k] for k in ("count", "sum", "min", "max")}
    exp.update({f"b{i + 1}": v for i, v in enumerate(h["b"])})
    o = {k: (v if k in ("min", "max") else v % mod) for k, v in obs.items()}
    return exp, o


def namer(cfg):
    return NAMES[cfg["kind"]]


def classer(cfg):
    return cfg["kind"] + ("" if cfg["en"] else " disabled")


COMP = Component(
    spec="Latency", name="latency", build=build, methods=methods,
    has_arg=lambda m: True, gen_arg=gen_arg, tracker=Tracker, module=__name__,
    # second callers; not for `start` of the wide measurer with max_start_count > 1: start forwards its argument to
    # WideFifo.write (validate_arguments), and a forwarding method with two callers is the known C10 finding
    # (combinational cycle, the simulation would not settle)
    shadow=lambda cfg: [] if not cfg["en"] else
    [m for m in methods(cfg) if not (cfg["kind"] == "wide" and cfg["msc"] > 1 and m.startswith("start"))],
    trace_extra="PubMatches == Line.pub = C!Pub(cfg, st)",
    trace_extra_names=["PubMatches"],
)


def _cfg(kind, ways, slots, maxlat, msc=1, mstop=1, en=True):
    return {"kind": kind, "ways": ways, "slots": slots, "maxlat": maxlat, "msc": msc, "mstop": mstop,
            "rw": 30, "en": en}


def trace_configs(tier):
    cfgs = []
    thorough = tier == "thorough"
    k = 0
    for slots in (1, 2, 3, 4, 6):
        for maxlat in (2, 3, 5, 8, 12):
            k += 1
            for ways in (1, 2, 3):
                if not thorough and (k + ways) % 3:
                    continue
                cfgs.append(_cfg("fifo", ways, slots, maxlat))
    for msc, mstop in ((1, 2), (2, 1), (2, 2), (3, 2), (2, 3), (3, 3), (1, 3)):
        for slots in (2, 3, 4, 6, 7):
            for maxlat in (3, 4, 7, 10):
                k += 1
                for ways in (1, 2):
                    if not thorough and (k + ways) % 5:
                        continue
                    cfgs.append(_cfg("wide", ways, slots, maxlat, msc, mstop))
    for slots in (1, 2, 3, 5, 8):
        for maxlat in (2, 3, 6, 9):
            k += 1
            for ways in (1, 2, 3):
                if not thorough and (k + ways) % 3:
                    continue
                cfgs.append(_cfg("tagged", ways, slots, maxlat))
    cfgs += [_cfg("fifo", 2, 2, 3, en=False), _cfg("wide", 1, 4, 3, 2, 2, en=False), _cfg("tagged", 2, 3, 3, en=False)]
    return cfgs


def situations(traces):
    seen = set()
    for tr in traces:
        cfg = tr["cfg"]
        key = tuple(cfg[k] for k in ("kind", "ways", "slots", "maxlat", "msc", "mstop", "en"))
        prev = None
        for ln in tr["cycles"]:
            nd = sum(1 for m in methods(cfg) if ln[m]["done"])
            if nd >= 2:
                seen.add((key, "simultaneous", nd))
            for m in methods(cfg):
                if ln[m]["req"] and not ln[m]["cal"]:
                    seen.add((key, "refused", m))
            if prev is not None and ln["pub"]["count"] != prev["count"]:
                n = ln["pub"]["count"] - prev["count"]
                seen.add((key, "samples-per-cycle", n))
                if n == 1:
                    seen.add((key, "latency", ln["pub"]["sum"] - prev["sum"]))
            prev = ln["pub"]
    return seen


def run(rep):
    thorough = rep.tier == "thorough"
    T = mh.Phases(rep)
    res, edges, inits = model_check(COMP, rep, emit=True)
    T("mc")
    cfgs = trace_configs(rep.tier)
    mc_cfgs = [i["cfg"] for i in inits]
    okset = {mh.vcomp._key(c) for c in mh.probe_configs(COMP, mc_cfgs + cfgs, rep, namer, classer)}
    T("probe")
    edges = [e for e in edges if mh.vcomp._key(e["cfg"]) in okset]
    inits = [i for i in inits if mh.vcomp._key(i["cfg"]) in okset]
    mh.replay_edges_pub(COMP, edges, inits, rep, "proj", namer, classer, max_len=400,
                        max_walks_per_cfg=None if thorough else 24)
    T("replay")
    ok = [c for c in cfgs if mh.vcomp._key(c) in okset]
    traces = record_traces(COMP, ok, 2 if thorough else 1, 300 if thorough else 200, rep.seed, rep)
    for k, v in trace_stats(COMP, traces).items():
        rep.add("impl_" + k, v)
    T("record")
    rej = mh.validate_grouped(COMP, traces, rep, namer, classer)
    T("validate")
    mh.corrupt_pub_self_test(COMP, mh.accepted(traces, rej), rep, random.Random(rep.seed))
    T("selftest")
    dis = [c for c in cfgs if c["ways"] == 1 or not c["en"]]
    mh.disabled_no_hardware(__name__, "build", dis if thorough else dis[::9], rep, namer)
    T("netlist")
    sit = situations(traces)
    rep.coverage["distinct_nontrivial"] = rep.coverage.get("edges_replayed_into_impl", 0) + len(sit)
    rep.coverage["evaluations"] = rep.coverage.get("impl_cycles", 0) + rep.coverage.get("replay_cycles", 0)
    rep.coverage["trace_configurations"] = len(ok)
    rep.coverage["rule"] = (
        "MC: Latency.tla Configs (fifo slots 1-2 x max_latency 2-4, 2 ways; wide start/stop counts 1-2; tagged "
        "slots 2-3, ways 1-2), every admissible start/stop set in every reachable state, histogram registers "
        "modulo 2^rw (rw 0-1); S->C: model edges replayed, histogram registers compared before and after each "
        "cycle (quick: seeded sample of the walks of configurations needing more than 24 resets); C->S: seeded "
        "random start/stop histories (driver keeps latencies <= max_latency), slots 1-8, max_latency 2-12, ways "
        "1-3, wide counts 1-3 incl. unequal and slots not a multiple; distinct_nontrivial = replayed model edges "
        "+ distinct (configuration, situation): refused start/stop, k simultaneous calls, samples per cycle, "
        "each measured latency value")
    if traces:
        t = traces[len(traces) // 2]
        rep.sample({"kind": "impl-trace", "cfg": t["cfg"], "first_cycles": t["cycles"][:2]})
    rep.assumptions += ["Amaranth Python simulator is faithful to the elaborated netlist",
                        "latencies stay <= max_latency and tagged slot tags are unique among in-flight events "
                        "(driver; Assume in the spec)",
                        "32-bit histogram registers do not wrap within a trace (modelled with 30 bits)"]


def replay(rep, path):
    import json
    d = json.load(open(path))
    if "schedule" not in d:
        mh.probe_configs(COMP, [d["cfg"]], rep, namer, classer)
        return
    from vlib.drive import CompSim
    cs = CompSim(COMP.build, d["cfg"])
    lines = cs.run(d["schedule"] + [{}])
    mh.validate_grouped(COMP, [{"cfg": d["cfg"], "seed": d.get("seed"), "cycles": lines}], rep, namer, classer)
