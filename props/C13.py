"""C13 Simultaneous methods run together and exchange data (specs/core/Simultaneous*.tla)."""
import multiprocessing as mp
import os

from vlib import condgen, judge, tlc

NPROCS = int(os.environ.get("VERIF_PROCS", "16"))
PROPS = ["SameCycles", "DataBothWays"]


def run(rep):
    thorough = rep.tier == "thorough"
    n, cap = (1500, 1024) if thorough else (140, 256)
    with mp.Pool(NPROCS) as pool:
        cases = pool.map(condgen.make_simul_case, [(rep.seed * 100003 + i, cap) for i in range(n)], chunksize=4)
    built = [c for c in cases if not c["raised"]]
    rep.coverage["designs_refused_by_usage_rule"] = sum(1 for c in cases if c["raised"] and c.get("usage_rule"))
    for c in cases:
        if c["raised"] and not c.get("usage_rule"):
            rep.violation({"component": "simultaneous", "cfg": {"seed": c["seed"]}, "clauses": ["ElaborationRaised"],
                           "what": c["exc"], "design": c["design"]})
    res, acc, rej, dev = judge.judge("SimultaneousTrace", [{"design": c["design"], "cycles": c["cycles"]} for c in built])
    for r in rej:
        c = built[r["tid"] - 1]
        dz = c["design"]
        called = {k["meth"] for k in dz["callers"]} | {k.get("meth2", 0) for k in dz["callers"]}
        uncalled_partner = any((a in called) != (b in called) for a, b in dz["pairs"])
        rep.violation({"component": "simultaneous",
                       "cfg": {"seed": c["seed"], "kind": dz["kind"], "uncalled_partner_in_chain": uncalled_partner and len(dz["pairs"]) > 1,
                               "shared": dz.get("shared", "")},
                       "clauses": sorted(set(r["clauses"]) & set(PROPS)), "all_failing": r["clauses"], "line": r["line"],
                       "design": c["design"], "observed": c["cycles"][r["line"] - 1]})
    small = [c["design"] for c in built if c["design"]["nin"] <= 6 and len(c["design"]["callers"]) <= 4][: (150 if thorough else 30)]
    mc = judge.model_check("SimultaneousMC", small, ["P1", "P2"])
    if mc.invariant_violated:
        rep.violation({"component": "simultaneous-model", "clauses": ["MC:" + mc.invariant_violated],
                       "what": "Simultaneous.tla's model violates C13", "tlc_tail": mc.out.splitlines()[-60:]})
    else:
        tlc.require_ok(mc, "SimultaneousMC")
        rep.add("states", mc.distinct)
        rep.add("transitions", mc.generated)
    cov = rep.coverage
    cov["traces_validated_against_impl"] = len(built)
    cov["impl_cycles"] = sum(len(c["cycles"]) for c in built)
    cov["model_deviations"] = len(dev)
    joint = sum(1 for c in built for ln in c["cycles"] if ln["mrun"][0])
    blocked = sum(1 for c in built for ln in c["cycles"] if not ln["mrun"][0])
    shapes = {(c["design"]["kind"], c["design"]["rev"], len(c["design"]["meths"]), len(c["design"]["callers"]),
               sum(1 for k in c["design"]["callers"] if k["extra"])) for c in built}
    cov["cycles_group_ran"] = joint
    cov["cycles_group_blocked"] = blocked
    cov["evaluations"] = cov["impl_cycles"]
    cov["distinct_nontrivial"] = len(shapes)
    cov["rule"] = ("random designs around Connect (with/without reverse layout) and chains of simultaneous() methods, 1-3 callers "
                   "per method, callers with extra callees of arbitrary readiness; all input valuations (<=256/1024), random "
                   "non-zero arguments; distinct_nontrivial = distinct (kind, rev, #methods, #callers, #extras) shapes")
    if built:
        rep.sample({"design": built[0]["design"], "cycle": next((l for l in built[0]["cycles"] if l["mrun"][0]), built[0]["cycles"][0])})
    if dev:
        cov["deviation_example"] = dev[0]
    rep.assumptions += ["Amaranth's Python simulator is faithful to the netlist"]


def replay(rep, path):
    """Rebuild the stored design with the current /repo, drive every input valuation again and judge the cycles."""
    import json
    import random
    d = json.load(open(path))
    dz = d["design"]
    rng = random.Random(d["cfg"].get("seed", 0))
    try:
        vals = condgen.all_vals(dz["nin"], rng, 1024)
        argvals = [[rng.randint(1, 7) for _ in range(dz["nargs"])] for _ in vals]
        lines = condgen.run_simul(dz, vals, argvals)
    except Exception as ex:  # noqa: BLE001
        if condgen.simul_usage_rule(dz, ex):
            # the current tree refuses the design by the documented usage rule (as `run` accepts it)
            rep.add("designs_refused_by_usage_rule", 1)
            return
        rep.violation({"component": "simultaneous", "cfg": d["cfg"], "clauses": ["ElaborationRaised"], "what": str(ex)[:300], "design": dz})
        return
    res, acc, rej, dev = judge.judge("SimultaneousTrace", [{"design": dz, "cycles": lines}])
    rep.add("traces_validated_against_impl", 1)
    for r in rej:
        rep.violation({"component": "simultaneous", "cfg": d["cfg"], "clauses": sorted(set(r["clauses"]) & set(PROPS)),
                       "all_failing": r["clauses"], "line": r["line"], "design": dz, "observed": lines[r["line"] - 1]})
