"""C06 Body effects follow the run signal (av_comb/top_comb semantics) (specs/core/TxnCore.tla, TxnCoreTrace.tla, TxnCoreMC.tla)."""
from vlib.core import core_check

OPTS = [dict(p_wit=1.0), dict(p_wit=1.0, p_nested=0.35, p_struct=0.7), dict(p_wit=1.0, p_fsm=0.4), dict(p_wit=1.0, sched='rr', nested=False, rdep_rel=False),
        # control structures nested in FSM states (FSM in FSM), many witnesses
        dict(p_wit=1.0, p_fsm=0.75, p_struct=0.85, wit_rounds=3, max_t=2, max_m=2, p_rel=0.2, _weight=2),
        # always_body transactions that lose arbitration or wait for a callee
        dict(p_wit=1.0, p_always=0.7, max_m=2, max_t=4, wit_rounds=2),
        # multi-bit If/Elif conditions (non-zero means true)
        dict(p_wit=1.0, p_widecond=1.0, p_struct=0.8, wit_rounds=2)]


def run(rep):
    core_check(rep, "C06", [dict(o) for o in OPTS], 112, 2800, nontrivial_key="impl_designs_built")
    rep.coverage["rule"] = ("random designs from vlib/coregen.py's grammar built with the real API, every valuation of the "
                            "control inputs (or random ones when there are many), both directions bound by TxnCoreTrace; "
                            "witness signals in comb/sync/av_comb/top_comb at random depths: WitComb, WitAv, WitTop, WitSync, AvReadyGated; distinct_nontrivial = built designs")


def replay(rep, path):
    from vlib.core import replay_case
    replay_case(rep, "C06", path)
