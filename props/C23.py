"""C23 Multiport memories are equivalent to an ideal synchronous memory
(spec: specs/lib/MultiMem.tla, MultiMemMC.tla, MultiMemTrace.tla; driver: vlib/memports.py).

The memories are plain Amaranth elaboratables with read/write *ports*; they are driven at
port level (no transactron method in between).  `amaranth.lib.memory.Memory` itself runs
through the same pipeline as a control: it must match the specification everywhere.
"""
import json
import random
from collections import defaultdict

from vlib import tlc
from vlib.memports import (MEMTYPES, Collector, PortSim, accepts, addr_bits, port_corrupt_self_test,
                           record_port_traces, replay_port_edges, tlc_workers, validate_port_traces)

MC_CFG = """SPECIFICATION Spec
VIEW View
INVARIANT Inv
PROPERTY StepOK
%s
CONSTANT EdgeMode = %d
CHECK_DEADLOCK FALSE
"""


def mk_cfg(mt, depth, width, gran, rp, wp, init, transp):
    tall = all(sorted(t) == list(range(1, wp + 1)) for t in transp)
    tnone = all(not t for t in transp)
    return {"memory_type": mt, "depth": depth, "width": width, "granularity": gran,
            "read_ports": rp, "write_ports": wp, "init": init, "init_flag": bool(init),
            "transp": transp, "transparent": "all" if tall else "none" if tnone else "some",
            "narrow": width < addr_bits(depth)}


def norm_cfg(cfg):
    """Configurations coming from the TLA+ model lack the derived fields."""
    if "narrow" in cfg and "init_flag" in cfg:
        return cfg
    return mk_cfg(cfg.get("memory_type"), cfg["depth"], cfg["width"], cfg["granularity"], cfg["read_ports"],
                  cfg["write_ports"], list(cfg["init"]), [list(t) for t in cfg["transp"]])


def transp_of(kind, rp, wp, rng=None):
    if kind == "none":
        return [[] for _ in range(rp)]
    if kind == "all":
        return [list(range(1, wp + 1)) for _ in range(rp)]
    if kind == "one":                     # every read port transparent for the LAST write port only
        return [[wp] for _ in range(rp)]
    if kind == "mixed":                   # read port p transparent for write port (p mod wp) + 1
        return [[(p % wp) + 1] for p in range(rp)]
    return [sorted(rng.sample(range(1, wp + 1), rng.randrange(0, wp + 1))) for _ in range(rp)]


def make_init(kind, depth, width, rng):
    if kind == "empty":
        return []
    n = depth if kind == "full" else rng.randrange(1, depth + 1)
    return [rng.randrange(1, 1 << width) for _ in range(n)]


def trace_cfgs(tier, seed):
    rng = random.Random(seed * 7919 + 23)
    cfgs = []
    # systematic core: every factor of the property's configuration space crossed
    for mt in MEMTYPES:
        for depth, width in [(4, 4), (16, 2), (5, 6)]:
            for wp in (1, 2):
                for rp in (1, 2):
                    for gran in (0, width // 2):
                        for ik in ("empty", "full"):
                            for tk in ("none", "all", "one"):
                                if tk == "one" and wp == 1:
                                    continue
                                if not accepts(mt, write_ports=wp, granularity=gran):
                                    continue
                                if (depth, width) == (5, 6) and (rp, ik) != (2, "full"):
                                    continue
                                cfgs.append(mk_cfg(mt, depth, width, gran, rp, wp,
                                                   make_init(ik, depth, width, rng), transp_of(tk, rp, wp)))
    # write-port counts that are not powers of two (index widths of live-value tables / bank selectors)
    for mt in MEMTYPES:
        for wp in ((3, 5, 6, 7) if tier == "thorough" else (3, 5)):
            for tk in ("none", "all"):
                if accepts(mt, write_ports=wp, granularity=0):
                    cfgs.append(mk_cfg(mt, 8, 4, 0, 2, wp, make_init("full" if tk == "none" else "empty", 8, 4, rng),
                                       transp_of(tk, 2, wp)))
    # random extras: more ports, other depths / widths / granularities / partial init
    n_extra = 400 if tier == "thorough" else 40
    shapes = [(2, 2), (2, 4), (3, 4), (4, 2), (6, 3), (7, 5), (8, 4), (8, 8), (9, 2), (12, 3), (16, 2), (16, 3), (16, 8)]
    for _ in range(n_extra):
        mt = rng.choice(MEMTYPES)
        depth, width = rng.choice(shapes)
        wp = 1 if mt == "MultiReadMemory" else rng.choice([1, 2, 2, 3])
        wp = min(wp, depth)
        rp = rng.choice([1, 2, 3])
        divs = [g for g in range(1, width + 1) if width % g == 0]
        gran = 0 if mt == "MultiportXORMemory" else rng.choice([0, 0, width // 2 if width % 2 == 0 else width] + divs)
        ik = rng.choice(["empty", "full", "partial"])
        tk = rng.choice(["none", "all", "one", "mixed", "random"])
        cfgs.append(mk_cfg(mt, depth, width, gran, rp, wp, make_init(ik, depth, width, rng),
                           transp_of(tk, rp, wp, rng)))
    return cfgs


def situations(traces):
    """Distinct non-trivial (configuration, situation) pairs met by the recorded traces."""
    seen = set()
    counts = defaultdict(int)
    for tr in traces:
        cfg = tr["cfg"]
        ck = json.dumps({k: v for k, v in cfg.items() if k != "init"}, sort_keys=True)
        g = cfg["granularity"] or cfg["width"]
        full = (1 << (cfg["width"] // g)) - 1
        last_w = {}      # row -> (cycle, port) of the last write
        prev_w = {}      # row -> port of the write before the last one
        last_read = [None] * cfg["read_ports"]
        for i, ln in enumerate(tr["cycles"]):
            for p, r in enumerate(ln["r"]):
                if r["en"]:
                    for j, w in enumerate(ln["w"]):
                        if w["en"] and w["addr"] == r["addr"]:
                            t = (j + 1) in cfg["transp"][p]
                            s = "same_cycle_write_%s%s" % ("transparent" if t else "opaque",
                                                          "_partial" if w["en"] != full else "")
                            seen.add((ck, s)); counts[s] += 1
                    lw = last_w.get(r["addr"])
                    if lw:
                        d = i - lw[0]
                        s = "read_%s_after_write" % ("1" if d == 1 else "2" if d == 2 else "later")
                        seen.add((ck, s)); counts[s] += 1
                        if prev_w.get(r["addr"]) not in (None, lw[1]):
                            seen.add((ck, "row_moved_between_write_ports")); counts["row_moved_between_write_ports"] += 1
                    elif cfg["init"] and r["addr"] < len(cfg["init"]):
                        seen.add((ck, "read_initial_contents")); counts["read_initial_contents"] += 1
                    last_read[p] = r["addr"]
                elif last_read[p] is not None and any(w["en"] and w["addr"] == last_read[p] for w in ln["w"]):
                    seen.add((ck, "hold_while_row_written")); counts["hold_while_row_written"] += 1
            for j, w in enumerate(ln["w"]):
                if w["en"]:
                    if w["addr"] in last_w:
                        prev_w[w["addr"]] = last_w[w["addr"]][1]
                    last_w[w["addr"]] = (i, j)
                    if w["en"] != full:
                        seen.add((ck, "partial_write")); counts["partial_write"] += 1
    return seen, dict(counts)


def run(rep):
    thorough = rep.tier == "thorough"
    col = Collector(rep, cfg_fix=norm_cfg)

    # 1. exhaustive model check of the ideal memory (no implementation involved)
    res = tlc.run("MultiMemMC", MC_CFG % ("", 0), workers=tlc_workers(8))
    if res.invariant_violated:
        rep.violation({"component": "MultiMem", "clauses": ["MC:" + res.invariant_violated],
                       "what": "model violates " + res.invariant_violated, "tlc_tail": res.out.splitlines()[-40:]})
        return
    tlc.require_ok(res, "MultiMemMC")
    rep.add("states", res.distinct)
    rep.add("transitions", res.generated)
    rep.coverage["mc"] = [{"module": "MultiMemMC", "mode": 0, "distinct_states": res.distinct,
                           "states_generated": res.generated, "depth": res.depth, "wall_s": round(res.wall_s, 2)}]

    # 2. spec -> code: every transition of the edge configurations into every memory type
    mode = 2 if thorough else 1
    res = tlc.run("MultiMemMC", MC_CFG % ("ACTION_CONSTRAINT Emit", mode), workers=1)
    tlc.require_ok(res, "MultiMemMC(edges)")
    edges, inits = tlc.tagged(res, "EDGE"), tlc.tagged(res, "INIT")
    rep.coverage["mc"].append({"module": "MultiMemMC", "mode": mode, "distinct_states": res.distinct,
                               "states_generated": res.generated, "edges": len(edges), "wall_s": round(res.wall_s, 2)})
    replay_port_edges(edges, inits, MEMTYPES, col)

    # 3. code -> spec: random port histories in larger / more varied configurations
    cfgs = trace_cfgs(rep.tier, rep.seed)
    traces = record_port_traces(cfgs, 3 if thorough else 1, 400 if thorough else 150, rep.seed, col)
    rej = validate_port_traces(traces, col)
    ncyc = sum(len(t["cycles"]) for t in traces)
    rep.add("impl_cycles", ncyc)
    rep.coverage["trace_configs"] = len(cfgs)
    rep.coverage["trace_configs_per_memory_type"] = {mt: sum(1 for c in cfgs if c["memory_type"] == mt) for mt in MEMTYPES}
    seen, counts = situations(traces)
    rep.coverage["situation_counts"] = counts

    # 4. binding self-test
    port_corrupt_self_test(traces, {r["tid"] for r in rej}, rep, random.Random(rep.seed))

    col.flush()
    if traces:
        rep.sample({"kind": "impl-trace", "cfg": traces[0]["cfg"], "first_cycles": traces[0]["cycles"][:3]})
    rep.coverage["rule"] = (
        "MC: ideal memory depth 2 / width 2, 1 read port, 1-2 write ports, granularity None/1, init empty/non-empty, "
        "all transparency sets, every admissible port input vector. S->C: every model edge of ConfigsEdge driven into "
        "each memory type that accepts the configuration. C->S: seeded random port histories (hot-address bias, "
        "enable phases, partial masks) over a systematic cross of memory_type x depth/width x ports x granularity x "
        "init x transparency plus random extras, validated by TLC clause ReadData on every port in every cycle. "
        "distinct_nontrivial = distinct (configuration, situation) pairs met (same-cycle write transparent/opaque/"
        "partial, read 1/2/later cycles after a write, row moved between write ports, hold while row written, "
        "initial contents read, partial write) + model edges replayed")
    rep.coverage["evaluations"] = sum(len(t["cycles"]) * t["cfg"]["read_ports"] for t in traces) + \
        rep.coverage.get("replay_cycles", 0)
    rep.coverage["distinct_nontrivial"] = len(seen) + len(edges)
    rep.assumptions += [
        "Amaranth Python simulator is faithful to the elaborated netlist",
        "precondition enforced by the driver: writing ports never share a row in a cycle; addresses < depth",
        "write data in traces is non-zero so that a stale or dropped granule is distinguishable"]


def replay(rep, path):
    d = json.load(open(path))
    cfg = d["cfg"]
    lines = PortSim(cfg).run(d["schedule"])
    validate_port_traces([{"cfg": cfg, "seed": d.get("seed"), "cycles": lines}], rep)
