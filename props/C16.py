"""C16 Stack behaves as a bounded LIFO (spec: specs/lib/Stack.tla)."""
from vlib.comp import Component, standard_check, replay_file

DATA_W = 3


def build(cfg):
    from transactron.lib.stack import Stack
    dut = Stack([("data", DATA_W)], cfg["depth"])
    return dut, {"read": dut.read, "peek": dut.peek, "write": dut.write, "clear": dut.clear}, {"level": dut.level}


def want(cfg, m, rng, tracker, p):
    return rng.random() < (p * 0.1 if m == "clear" else p)


COMP = Component(
    spec="Stack", name="Stack", build=build,
    methods=lambda cfg: ["read", "peek", "write", "clear"],
    has_arg=lambda m: m == "write",
    gen_arg=lambda cfg, m, rng, tr: rng.randrange(1, 1 << DATA_W),
    want=want, module=__name__,
    shadow=lambda cfg: ["read", "write"],   # exclusive methods: a second caller must never be served in the same cycle
    trace_extra="PubMatches == Line.pub.level = Len(st.s)",
    trace_extra_names=["PubMatches"],
)


def run(rep):
    thorough = rep.tier == "thorough"
    depths = list(range(1, 14)) + [16, 20] if thorough else [1, 2, 3, 4, 5, 6, 7, 8, 12]
    standard_check(COMP, rep, trace_cfgs=[{"depth": d} for d in depths],
                   seeds_per_cfg=12 if thorough else 3, cycles=800 if thorough else 250)
    rep.coverage["rule"] = ("MC: depths 1-3, data {1,2}, all call sets; S->C: every model edge; C->S: random histories, "
                            "depths up to 12 (thorough 20) incl. odd and even non-powers of two; distinct_nontrivial = model edges replayed")
    rep.coverage["evaluations"] = rep.coverage.get("impl_cycles", 0) + rep.coverage.get("replay_cycles", 0)
    rep.coverage["distinct_nontrivial"] = rep.coverage.get("edges_total", 0)
    rep.assumptions += ["Amaranth Python simulator is faithful to the elaborated netlist"]


def replay(rep, path):
    replay_file(COMP, rep, path)
