"""C30 InputSampler and OutputBuffer follow their trigger (spec: specs/lib/BasicIO.tla)."""
import itertools

from vlib import connharness as ch

W_MC = 2


def build(cfg):
    from transactron.lib.basicio import InputSampler, OutputBuffer
    from transactron.utils.data_repr import data_layout
    kw = dict(edge=cfg["edge"], polarity=cfg["pol"], synchronize=cfg["sync"])
    if cfg["kind"] == "in":
        dut = InputSampler(data_layout(cfg["w"]), **kw)
        return dut, {"get": dut.get}, {}, None, {"trig": dut.trigger, "data": dut.data.as_value()}
    dut = OutputBuffer(data_layout(cfg["w"]), **kw)
    return dut, {"put": dut.put}, {"data": dut.data.as_value()}, None, {"trig": dut.trigger}


def gen_in(cfg, rng, tracker, ph):
    # trigger toggles with a phase-dependent probability so that both long levels and
    # frequent edges occur
    t = 1 if rng.random() < ph["p"] else 0
    if cfg["kind"] == "in":
        return {"trig": t, "data": rng.randrange(1, 1 << cfg["w"])}
    return {"trig": t}


COMP = ch.IOComponent(
    spec="BasicIO", name="InputSampler/OutputBuffer", build=build,
    methods=lambda cfg: ["get"] if cfg["kind"] == "in" else ["put"],
    has_arg=lambda m: m == "put",
    gen_arg=lambda cfg, m, rng, tr: rng.randrange(1, 1 << cfg["w"]),
    gen_in=gen_in, module=__name__, has_ghost=True,
    shadow=lambda cfg: ["get"] if cfg["kind"] == "in" else ["put"],
    in_phase=lambda cfg, rng: {"p": rng.choice([0.0, 0.2, 0.5, 0.5, 0.8, 1.0])},
)


def all_cfgs(w):
    return [{"kind": k, "edge": e, "pol": p, "sync": s, "w": w}
            for k in ("in", "out") for e in (False, True) for p in (False, True) for s in (False, True)]


def exhaustive_jobs(cfg, length):
    """Every trigger/data history of `length` cycles from reset; the method is requested in
    every cycle (readiness is observable only when requested)."""
    jobs = []
    for hist in itertools.product(itertools.product((0, 1), (1, 2)), repeat=length):
        sched = []
        for t, d in hist:
            if cfg["kind"] == "in":
                sched.append({"get": None, "_in": {"trig": t, "data": d}})
            else:
                sched.append({"put": d, "_in": {"trig": t}})
        jobs.append({"kind": "exhaustive", "schedule": sched})
    return jobs


def run(rep):
    thorough = rep.tier == "thorough"
    length = 6 if thorough else 5
    jobs = []
    for cfg in all_cfgs(W_MC):
        jobs.append((cfg, exhaustive_jobs(cfg, length)))
    for ci, cfg in enumerate(all_cfgs(4)):
        jobs.append((cfg, [{"kind": "random", "seed": rep.seed * 100003 + ci * 1009 + k, "cycles": 200}
                           for k in range(24 if thorough else 4)]))
    traces = ch.standard_check(COMP, rep, jobs_by_cfg=jobs, split=2 if not thorough else 4)
    nex = sum(1 for t in traces if t.get("kind") == "exhaustive")
    rep.coverage["exhaustive_histories"] = nex
    rep.coverage["exhaustive_history_length"] = length
    # non-trivial: cycles in which the property defines readiness and the method was requested
    defined = 0
    active = 0
    for t in traces:
        blind = int(t["cfg"]["sync"]) + int(t["cfg"]["edge"])
        m = "get" if t["cfg"]["kind"] == "in" else "put"
        for i, ln in enumerate(t["cycles"]):
            if i >= blind and ln[m]["req"]:
                defined += 1
                active += ln[m]["done"]
    rep.coverage["rule"] = (
        "MC: 16 configurations (2 components x edge x polarity x synchronize), all trigger/data inputs and "
        "request sets in every reachable state, twice (edge pass; history pass with the ghost input history in "
        "the fingerprint); S->C: every (state, request, input) group of the model graph driven into the real "
        "circuit; C->S: every trigger/data history of length %d from reset for all 16 configurations (method "
        "requested every cycle) + random 200-cycle histories with 4-bit data; distinct_nontrivial = distinct "
        "exhaustive histories + model edge groups replayed; evaluations = requested cycles in which the "
        "property defines readiness" % length)
    rep.coverage["evaluations"] = defined
    rep.coverage["cycles_method_executed"] = active
    rep.coverage["distinct_nontrivial"] = nex + rep.coverage.get("edge_groups_replayed_into_impl", 0)
    rep.assumptions += [
        "Amaranth Python simulator is faithful to the elaborated netlist",
        "readiness in the first d (level) / d+1 (edge) cycles after reset, d = 1 if synchronize else 0, is not "
        "asserted: the property's 'previous cycle' / synchronised sample would predate the reset",
        "the value returned by a synchronised get in cycle 1 and OutputBuffer.data before the first put are not asserted",
    ]


def replay(rep, path):
    ch.replay_file(COMP, rep, path)
