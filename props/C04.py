"""C04 Methods execute exactly when called by a running caller (specs/core/TxnCore.tla, TxnCoreTrace.tla, TxnCoreMC.tla)."""
from vlib.core import core_check

OPTS = [dict(), dict(p_alias=0.6, p_nonexcl=0.4), dict(p_nested=0.35), dict(sched='rr', nested=False, rdep_rel=False),
        # constant enable_call values (elaboration-time flags: False / 0 / C(0) / True / C(1))
        dict(p_constenable=0.4, p_enable=0.3),
        # the same grammar built through the sugar API: Methods vectors, @def_methods over groups of sibling bodies
        # (ready per index), Methods.provide / Methods.__call__ aliases
        dict(p_sugar=1.0, sugar_mode="vec", max_m=6, max_t=3, p_struct=0.2, p_body_in_struct=0.0, p_validate=0.05, p_nonexcl=0.1, p_nested=0.3, p_alias=0.4)]


def run(rep):
    core_check(rep, "C04", [dict(o) for o in OPTS], 96, 2400, nontrivial_key="impl_designs_built")
    rep.coverage["rule"] = ("random designs from vlib/coregen.py's grammar built with the real API, every valuation of the "
                            "control inputs (or random ones when there are many), both directions bound by TxnCoreTrace; "
                            "clauses MethodRunIffActiveSite, NestedRunsOnlyWithParent, SiteWitnessMatches; distinct_nontrivial = built designs")


def replay(rep, path):
    from vlib.core import replay_case
    replay_case(rep, "C04", path)
