"""C09 Round-robin scheduler: one grant per component, no starvation (specs/core/TxnCore.tla)."""
from vlib.core import core_check

OPTS = [dict(sched="rr", nested=False, rdep_rel=False, _sticky=0.8, max_m=2, max_t=4),
        dict(sched="rr", nested=False, rdep_rel=False, _sticky=0.6),
        dict(sched="rr", nested=False, rdep_rel=False, _sticky=0.9, max_m=1, max_t=4, p_struct=0.2)]


def run(rep):
    core_check(rep, "C09", [dict(o) for o in OPTS], 48, 1200, cyc_quick=160, cyc_thorough=600,
               nontrivial_key="impl_cycles_with_ready_not_run")
    rep.coverage["rule"] = ("designs without ready dependencies under trivial_roundrobin_cc_scheduler, sticky random input "
                            "histories (inputs keep their value with probability 0.6-0.9 so that long enabled windows occur); "
                            "clauses AtMostOnePerComponent, SomeoneRunsIfEnabled, BoundedWait (wait counter carried by the trace spec); "
                            "TxnCoreMC explores every arbiter order/pointer state x valuation; distinct_nontrivial = cycles with a "
                            "ready+runnable transaction that was not granted")


def replay(rep, path):
    from vlib.core import replay_case
    replay_case(rep, "C09", path)
