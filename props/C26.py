"""C26 PreservedOrderAllocator tracks allocation order (spec: specs/lib/AllocOrder.tla)."""
from vlib.comp import Component, replay_file
from vlib.c24_27 import check, STEP_EXTRA, STEP_EXTRA_NAMES

METHODS = ["alloc", "free", "free_idx", "order", "clear"]


def build(cfg):
    from transactron.lib.allocators import PreservedOrderAllocator
    dut = PreservedOrderAllocator(cfg["entries"])
    return dut, {"alloc": dut.alloc, "free": dut.free, "free_idx": dut.free_idx, "order": dut.order,
                 "clear": dut.clear}


class Tracker:
    """Allocated identifiers oldest -> newest, followed from the observed calls only (alloc
    results, free arguments); used to obey "only frees allocated identifiers / indices below
    the used count"."""

    def __init__(self, cfg):
        self.n = cfg["entries"]
        self.hist = []

    def update(self, line):
        if line["clear"]["done"]:
            self.hist = []
            return
        h = list(self.hist)
        if line["free"]["done"]:
            h.remove(line["free"]["arg"])
        elif line["free_idx"]["done"]:
            del h[line["free_idx"]["arg"]]
        if line["alloc"]["done"]:
            h.append(line["alloc"]["out"])
        self.hist = h

    def fix(self, step, rng):
        if not self.hist:
            for m in ("free", "free_idx"):
                if m in step:
                    del step[m]
                    step["_args"][m] = 0
        else:
            if "free" in step:
                step["free"] = rng.choice(self.hist)
            if "free_idx" in step:
                # bias to the ends (oldest / newest) where the shifting logic has its corners
                r = rng.random()
                k = len(self.hist)
                step["free_idx"] = 0 if r < 0.25 else k - 1 if r < 0.5 else rng.randrange(k)
        return step


def gen_arg(cfg, m, rng, tr):
    return rng.randrange(cfg["entries"])


def want(cfg, m, rng, tr, p):
    if m == "clear":
        return rng.random() < p * 0.08
    if m == "order":
        return rng.random() < 0.9
    return rng.random() < p


COMP = Component(
    spec="AllocOrder", name="PreservedOrderAllocator", build=build, methods=lambda cfg: METHODS,
    has_arg=lambda m: m in ("free", "free_idx"), gen_arg=gen_arg, want=want, tracker=Tracker,
    module=__name__, trace_extra=STEP_EXTRA, trace_extra_names=STEP_EXTRA_NAMES,
    shadow=lambda cfg: ["alloc", "free", "free_idx"],
)


def run(rep):
    thorough = rep.tier == "thorough"
    sizes = list(range(1, 10)) + [12, 16] if thorough else [1, 2, 3, 4, 5, 6, 7]
    cfgs = [{"entries": n} for n in sizes]
    traces = check(COMP, rep, trace_cfgs=cfgs, seeds_per_cfg=16 if thorough else 4,
                   cycles=600 if thorough else 200, mc_set=rep.tier)
    # distinct non-trivial situations in the implementation traces:
    # (entries, used, freed position or -1, alloc executed, via free/free_idx) with a free or an alloc executed
    seen = set()
    both = blocked = 0
    for tr in traces:
        t = Tracker(tr["cfg"])
        for ln in tr["cycles"]:
            pos, via = -1, ""
            if ln["free"]["done"]:
                pos, via = t.hist.index(ln["free"]["arg"]), "free"
            elif ln["free_idx"]["done"]:
                pos, via = ln["free_idx"]["arg"], "free_idx"
            a = ln["alloc"]["done"]
            if a or via:
                seen.add((tr["cfg"]["entries"], len(t.hist), pos, a, via, ln["clear"]["done"]))
            both += bool(a and via)
            blocked += bool(ln["free"]["req"] and ln["free_idx"]["req"])
            t.update(ln)
    rep.coverage["impl_distinct_situations"] = len(seen)
    rep.coverage["impl_cycles_alloc_and_free_together"] = both
    rep.coverage["impl_cycles_free_and_free_idx_both_requested"] = blocked
    rep.coverage["rule"] = (
        "MC: all call sets (alloc x free(id) | free_idx(idx) x order x clear) in all reachable (order, used) states "
        "for entries 1-4 (thorough 1-5); S->C: every model edge replayed into the real allocator; C->S: seeded random "
        "histories for entries 1-7 (thorough up to 16), frees restricted by the driver to allocated ids / idx < used, "
        "free and free_idx often requested together (one is blocked by the scheduler); distinct_nontrivial = model "
        "edges replayed + distinct (entries, used, freed position, alloc?, free kind, clear?) situations in the traces")
    rep.coverage["evaluations"] = rep.coverage.get("impl_cycles", 0) + rep.coverage.get("replay_cycles", 0)
    rep.coverage["distinct_nontrivial"] = rep.coverage.get("edges_total", 0) + len(seen)
    rep.assumptions += ["Amaranth Python simulator is faithful to the elaborated netlist",
                        "free only of allocated identifiers, free_idx only below the used count (driver + Assume)"]


def replay(rep, path):
    replay_file(COMP, rep, path)
