"""C14 FIFO and BasicFifo behave as bounded queues (spec: specs/lib/Queue.tla)."""
from vlib.comp import Component, standard_check, replay_file

LAYOUTS = {1: [("data", 4)], 2: [("a", 3), ("b", 2)]}


def zero_of(fields):
    return 0 if fields == 1 else {"a": 0, "b": 0}


def build(cfg):
    layout = LAYOUTS[cfg.get("fields", 1)]
    if cfg["kind"] == "BasicFifo":
        from transactron.lib import BasicFifo
        dut = BasicFifo(layout, cfg["depth"])
        return (dut, {"read": dut.read, "peek": dut.peek, "write": dut.write, "clear": dut.clear},
                {"level": dut.level})
    from transactron.lib import FIFO
    dut = FIFO(layout, cfg["depth"])
    return dut, {"read": dut.read, "write": dut.write}


def methods(cfg):
    return ["read", "peek", "write", "clear"] if cfg["kind"] == "BasicFifo" else ["read", "write"]


def gen_arg(cfg, m, rng, tr):
    # never the all-zero element: a returned zero (empty slot) stays distinguishable
    if cfg.get("fields", 1) == 1:
        return rng.randrange(1, 16)
    return {"a": rng.randrange(1, 8), "b": rng.randrange(0, 4)}


MODES = ["random", "random", "fill", "drain", "pp_full", "pp_empty", "clear_race"]


class Tracker:
    """Driver-side level tracking (from the observed `done` bits only) and bias phases:
    fill, drain, ping-pong at full / at empty, clear racing with write."""

    def __init__(self, cfg):
        self.cfg = cfg
        self.level = 0
        self.mode = "random"
        self.until = 0
        self.i = 0

    def update(self, line):
        if "clear" in line and line["clear"]["done"]:
            self.level = 0
        else:
            self.level += line["write"]["done"] - line["read"]["done"]

    def _set(self, step, m, on, rng):
        if m not in methods(self.cfg):
            return
        args = step.setdefault("_args", {})
        if on and m not in step:
            a = args.pop(m, None)
            if m == "write" and a is None:
                a = gen_arg(self.cfg, m, rng, self)
            step[m] = a
        elif not on and m in step:
            a = step.pop(m)
            if a is not None:
                args[m] = a

    def fix(self, step, rng):
        if self.i >= self.until:
            self.mode = rng.choice(MODES)
            self.until = self.i + rng.choice([4, 10, 2 * self.cfg["depth"] + 2, 3 * self.cfg["depth"] + 5])
        self.i += 1
        mo = self.mode
        if mo == "fill":
            self._set(step, "write", True, rng)
            self._set(step, "read", rng.random() < 0.1, rng)
            self._set(step, "clear", False, rng)
        elif mo == "drain":
            self._set(step, "read", True, rng)
            self._set(step, "write", rng.random() < 0.1, rng)
            self._set(step, "clear", False, rng)
        elif mo == "pp_full":
            self._set(step, "write", True, rng)
            self._set(step, "read", rng.random() < 0.5, rng)
            self._set(step, "clear", False, rng)
        elif mo == "pp_empty":
            self._set(step, "read", True, rng)
            self._set(step, "peek", rng.random() < 0.7, rng)
            self._set(step, "write", rng.random() < 0.5, rng)
            self._set(step, "clear", False, rng)
        elif mo == "clear_race":
            self._set(step, "write", True, rng)
            c = rng.random() < 0.3
            self._set(step, "clear", c, rng)
            self._set(step, "read", rng.random() < (0.6 if c else 0.1), rng)
        return step


def want(cfg, m, rng, tracker, p):
    return rng.random() < (p * 0.1 if m == "clear" else p)


COMP = Component(
    spec="Queue", name="BasicFifo/FIFO", build=build, methods=methods,
    has_arg=lambda m: m == "write", gen_arg=gen_arg, tracker=Tracker, want=want, module=__name__,
    shadow=lambda cfg: ["read", "write"],
    trace_extra='PubMatches == (cfg.kind = "BasicFifo") => Line.pub.level = st.lvl',
    trace_extra_names=["PubMatches"],
)


def situations(traces):
    """Distinct (configuration, level class, executed set, requested-but-not-callable set) and
    counters of the corner histories named by the property."""
    seen = set()
    cnt = {"read_write_same_cycle": 0, "clear_with_write": 0, "write_refused_at_full": 0,
           "read_refused_at_empty": 0, "wraps": 0, "read_and_write_at_full_requested": 0,
           "read_and_write_at_empty_requested": 0}
    for tr in traces:
        cfg = tr["cfg"]
        d = cfg["depth"]
        lvl, wr = 0, 0
        for ln in tr["cycles"]:
            ms = [m for m in ln if isinstance(ln[m], dict) and "req" in ln[m]]
            done = frozenset(m for m in ms if ln[m]["done"])
            refused = frozenset(m for m in ms if ln[m]["req"] and not ln[m]["cal"])
            cls = "empty" if lvl == 0 else ("full" if lvl == d else "mid")
            if done or refused:
                seen.add((cfg["kind"], d, cfg.get("fields", 1), cls, done, refused))
            if {"read", "write"} <= done:
                cnt["read_write_same_cycle"] += 1
            if {"clear", "write"} <= done:
                cnt["clear_with_write"] += 1
            if "write" in refused and lvl == d:
                cnt["write_refused_at_full"] += 1
                if ln["read"]["req"]:
                    cnt["read_and_write_at_full_requested"] += 1
            if "read" in refused and lvl == 0:
                cnt["read_refused_at_empty"] += 1
                if ln["write"]["req"]:
                    cnt["read_and_write_at_empty_requested"] += 1
            if "write" in done:
                wr += 1
                if wr % d == 0:
                    cnt["wraps"] += 1
            if "clear" in done:
                lvl, wr = 0, 0
            else:
                lvl += ("write" in done) - ("read" in done)
    return seen, cnt


def trace_cfgs(thorough):
    cfgs = []
    depths = range(1, 10)
    for k in ("BasicFifo", "FIFO"):
        for d in depths:
            fs = (1, 2) if (thorough or d in (1, 3, 6)) else ((2,) if d % 2 == 0 else (1,))
            for f in fs:
                cfgs.append({"kind": k, "depth": d, "fields": f, "zero": zero_of(f)})
    if thorough:
        for k in ("BasicFifo", "FIFO"):
            for d in (12, 16, 17):
                cfgs.append({"kind": k, "depth": d, "fields": 1, "zero": 0})
    return cfgs


def run(rep):
    thorough = rep.tier == "thorough"
    traces = standard_check(COMP, rep, trace_cfgs=trace_cfgs(thorough), seeds_per_cfg=12 if thorough else 3,
                            cycles=900 if thorough else 300)
    seen, cnt = situations(traces)
    rep.coverage["corner_counts"] = cnt
    rep.coverage["trace_situations"] = len(seen)
    rep.coverage["rule"] = (
        "MC: kinds {BasicFifo, FIFO}, depth 1-3, data {1,2}, ring-shaped state, all call sets in all states; "
        "S->C: every model edge (every pointer position) replayed; C->S: seeded histories with bias phases "
        "(fill, drain, ping-pong at full/empty, clear racing write), depths 1-9 (thorough also 12,16,17), 1- and "
        "2-field layouts; distinct_nontrivial = model edges replayed + distinct (kind, depth, layout, level class, "
        "executed set, refused set) situations with at least one executed or refused call")
    rep.coverage["evaluations"] = rep.coverage.get("impl_cycles", 0) + rep.coverage.get("replay_cycles", 0)
    rep.coverage["distinct_nontrivial"] = rep.coverage.get("edges_total", 0) + len(seen)
    for k in ("read_write_same_cycle", "clear_with_write", "write_refused_at_full", "read_refused_at_empty", "wraps"):
        if cnt[k] == 0 and not rep.violations:
            rep.machinery(f"C14: corner '{k}' never occurred in the recorded traces (vacuous)")
    rep.assumptions += ["Amaranth Python simulator is faithful to the elaborated netlist",
                        "written elements are never the all-zero word, so an empty-slot read is distinguishable",
                        "FIFO is used with its default amaranth.lib.fifo.SyncFIFO"]


def replay(rep, path):
    replay_file(COMP, rep, path)
