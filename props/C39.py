"""C39 RoundRobin arbiters grant fairly (spec: specs/core/RoundRobin.tla, hand-written
RoundRobinMC.tla / RoundRobinTrace.tla because the arbiters have plain ports, not methods).

  MC   : both kinds x count 1..6, every request set in every reachable (pointer, valid, wait
         history) state; invariants TypeOK/BoundedWait, action properties StepOK/ServedInTime.
  S->C : every edge of the component automaton (pointer x request set) replayed into the real
         OneHotRoundRobin / RoundRobin by edge-cover walks.
  C->S : seeded random request histories of the real arbiters, validated by RoundRobinTrace
         (pointer never read: the model follows it from reset).
"""
from __future__ import annotations

import copy
import json
import random

from vlib import tlc
from vlib.comp import plan_walks
from vlib.obsharness import simulate_ports, fan_out, validate_batch, validate_with_selftest, PROCS

KINDS = ["onehot", "registered"]
NAMES = {"onehot": "OneHotRoundRobin", "registered": "RoundRobin"}

MC_FULL = """SPECIFICATION Spec
VIEW ViewFull
INVARIANT Inv
PROPERTY StepOK
PROPERTY ServedInTime
CHECK_DEADLOCK FALSE
"""
MC_EDGE = """SPECIFICATION Spec
VIEW ViewEdge
ACTION_CONSTRAINT Emit
CHECK_DEADLOCK FALSE
"""
MC_WORST = """SPECIFICATION Spec
VIEW ViewFull
INVARIANT NeverWorstCase
CHECK_DEADLOCK FALSE
"""


def build(cfg):
    from transactron.utils.amaranth_ext.elaboratables import OneHotRoundRobin, RoundRobin
    if cfg["kind"] == "onehot":
        return OneHotRoundRobin(cfg["count"])
    return RoundRobin(count=cfg["count"])


def run_requests(cfg, reqs):
    """Apply the request masks cycle by cycle; one line per cycle (public ports only)."""
    dut = build(cfg)
    rows = simulate_ports(dut, [dut.requests], [dut.grant, dut.valid], [(r,) for r in reqs])
    return [{"req": r, "grant": g, "valid": v} for r, (g, v) in zip(reqs, rows)]


# ---------------------------------------------------------------------------------------
# spec -> code

def replay_walk(cfg, walk):
    reqs = [sum(1 << k for k in e["lab"]["req"]) for e in walk]
    lines = run_requests(cfg, reqs)
    for i, (e, ln) in enumerate(zip(walk, lines)):
        lab = e["lab"]
        probs = []
        if ln["valid"] != (1 if lab["valid"] else 0):
            probs.append(f"valid={ln['valid']} expected {int(lab['valid'])}")
        if cfg["kind"] == "onehot":
            exp = sum(1 << k for k in lab["grant"])
            if lab["valid"] and ln["grant"] != exp:       # raw grant is a don't-care when ~valid
                probs.append(f"grant={ln['grant']:#b} expected {exp:#b}")
        else:
            if [ln["grant"]] != lab["grant"]:
                probs.append(f"grant={ln['grant']} expected {lab['grant']}")
        if probs:
            return {"step": i, "problems": probs, "schedule": reqs[: i + 1], "from": e["from"], "lab": lab,
                    "observed": ln}
    return None


def _replay_task(cfg, walk):
    return cfg, len(walk), replay_walk(cfg, walk)


# ---------------------------------------------------------------------------------------
# code -> spec

def random_requests(cfg, rng: random.Random, cycles: int):
    n = cfg["count"]
    full = (1 << n) - 1
    reqs = []
    while len(reqs) < cycles:
        ln = rng.choice([2, 5, 12, 30])
        mode = rng.choice(["rand", "rand", "full", "hold", "sparse", "idle", "two"])
        hold = rng.randrange(n)
        pair = (1 << rng.randrange(n)) | (1 << rng.randrange(n))
        p = rng.choice([0.2, 0.5, 0.8])
        for _ in range(ln):
            if mode == "full":
                r = full
            elif mode == "idle":
                r = 0
            elif mode == "hold":          # one input requests continuously, the others churn
                r = (1 << hold) | rng.randrange(1 << n)
            elif mode == "sparse":
                r = (1 << rng.randrange(n)) if rng.random() < 0.5 else 0
            elif mode == "two":
                r = pair
            else:
                r = sum(1 << k for k in range(n) if rng.random() < p)
            reqs.append(r)
    reqs = reqs[:cycles]
    reqs.append(0)    # lets the registered arbiter show the decision of the last request
    return reqs


def record(cfg, seed, cycles):
    rng = random.Random(seed)
    return {"cfg": cfg, "seed": seed, "cycles": run_requests(cfg, random_requests(cfg, rng, cycles))}


def impl_stats(traces):
    """Statistics over the recorded traces (evidence only, not an oracle)."""
    st = {"cycles": 0, "cycles_with_request": 0, "cycles_contended": 0, "worst_case_waits": 0}
    seen = set()
    for tr in traces:
        n = tr["cfg"]["count"]
        onehot = tr["cfg"]["kind"] == "onehot"
        wait = [0] * n
        prev = 0
        for ln in tr["cycles"]:
            st["cycles"] += 1
            r = ln["req"] if onehot else prev
            if ln["req"]:
                st["cycles_with_request"] += 1
            if bin(ln["req"]).count("1") >= 2:
                st["cycles_contended"] += 1
            g = (ln["grant"] if onehot else 1 << ln["grant"]) if ln["valid"] else 0
            for k in range(n):
                if (r >> k) & 1 and not (g >> k) & 1:
                    wait[k] += 1
                    if wait[k] == n - 1 and n >= 2:
                        st["worst_case_waits"] += 1
                else:
                    wait[k] = 0
            seen.add((tr["cfg"]["kind"], n, ln["req"], g))
            prev = ln["req"]
    st["distinct_kind_count_request_grant"] = len(seen)
    return st


def violation_from_reject(rep, tr, r):
    ln = r["line"]                                   # first failing line (ModelStep or property clause)
    last = max(ln, r.get("prop_line", 0))            # line at which a property clause failed (if any)
    rep.violation({"component": NAMES[tr["cfg"]["kind"]], "cfg": tr["cfg"], "clauses": sorted(r["clauses"]),
                   "line": ln, "prop_line": r.get("prop_line", 0), "seed": tr.get("seed"),
                   "model_state": r.get("state"), "observed": tr["cycles"][ln - 1],
                   "schedule": [c["req"] for c in tr["cycles"][:last]]})


def validate(rep, traces, corrupted=None):
    tl = [{"cfg": t["cfg"], "cycles": t["cycles"]} for t in traces]
    if corrupted is None:
        rej, res = validate_batch("RoundRobinTrace", tl)
    else:
        rej, res = validate_with_selftest("RoundRobinTrace", tl, corrupted, rep)
    rep.add("traces_validated_against_impl", len(traces))
    rep.add("trace_states", res.distinct)
    for tid, r in sorted(rej.items()):
        violation_from_reject(rep, traces[tid - 1], r)
    return rej


def corrupted_traces(traces, rng):
    """Corrupt one observed field (grant or valid) of recorded traces: must be rejected there."""
    cor = []
    good = [t for t in traces if t["cfg"]["count"] >= 2]
    for i in range(16):
        t = copy.deepcopy(rng.choice(good))
        n = t["cfg"]["count"]
        onehot = t["cfg"]["kind"] == "onehot"
        cands = [j for j, c in enumerate(t["cycles"]) if c["valid"]]
        if not cands:
            continue
        j = rng.choice(cands)
        c = t["cycles"][j]
        if i % 2 == 0:
            c["valid"] = 0
            what = "valid dropped"
        elif onehot:
            b = c["grant"].bit_length() - 1
            c["grant"] = 1 << ((b + 1 + rng.randrange(n - 1)) % n)
            what = "grant moved to another input"
        else:
            c["grant"] = (c["grant"] + 1 + rng.randrange(n - 1)) % n
            what = "grant moved to another input"
        cor.append(({"cfg": t["cfg"], "cycles": t["cycles"]}, j + 1, f"{t['cfg']} line {j + 1}: {what}"))
    return cor


# ---------------------------------------------------------------------------------------

def run(rep):
    thorough = rep.tier == "thorough"
    # 1. exhaustive model
    res = tlc.run("RoundRobinMC", MC_FULL, workers=min(PROCS, 8), timeout=1200)
    if res.invariant_violated:
        rep.violation({"component": "RoundRobin model", "what": f"model violates {res.invariant_violated}",
                       "clauses": ["MC:" + res.invariant_violated], "tlc_tail": res.out.splitlines()[-60:]})
        return
    tlc.require_ok(res, "RoundRobinMC")
    rep.add("states", res.distinct)
    rep.add("transitions", res.generated)
    rep.coverage["mc"] = [{"module": "RoundRobinMC", "view": "up to rotation of the inputs", "counts": "1..6", "kinds": KINDS,
                           "distinct_states": res.distinct, "states_generated": res.generated, "depth": res.depth,
                           "wall_s": round(res.wall_s, 2)}]
    if thorough:      # the same model without the rotation reduction
        res2 = tlc.run("RoundRobinMC", MC_FULL.replace("ViewFull", "ViewPlain"), workers=min(PROCS, 8), timeout=1500)
        if res2.invariant_violated:
            rep.violation({"component": "RoundRobin model", "what": f"model (plain view) violates {res2.invariant_violated}",
                           "clauses": ["MC:" + res2.invariant_violated], "tlc_tail": res2.out.splitlines()[-60:]})
            return
        tlc.require_ok(res2, "RoundRobinMC(plain)")
        rep.add("states", res2.distinct)
        rep.add("transitions", res2.generated)
        rep.coverage["mc"].append({"module": "RoundRobinMC", "view": "plain", "counts": "1..6", "distinct_states": res2.distinct,
                                   "states_generated": res2.generated, "wall_s": round(res2.wall_s, 2)})
    # non-vacuity of the bound: the worst case (count-1 denials in a row) is reachable
    worst = tlc.run("RoundRobinMC", MC_WORST, env={"RR_MAXN": "4"}, workers=1)
    if worst.invariant_violated != "NeverWorstCase":
        raise tlc.MachineryError("RoundRobinMC: worst-case wait count-1 is not reachable in the model (bound vacuous)")
    rep.coverage["mc_worst_case_reachable"] = True

    # 2. spec -> code: all edges of the component automaton
    er = tlc.run("RoundRobinMC", MC_EDGE, workers=1, timeout=1200)
    tlc.require_ok(er, "RoundRobinMC(edges)")
    edges = tlc.tagged(er, "EDGE")
    init_key = json.dumps({"g": [0], "v": False}, sort_keys=True)
    for e in edges:
        e["_init"] = init_key
    walks = plan_walks(edges, max_len=60, rng=random.Random(rep.seed))
    results = fan_out([(__name__, "_replay_task", (cfg, walk)) for cfg, walk in walks])
    rep.add("edges_total", len(edges))
    rep.add("edges_replayed_into_impl", len(edges))
    rep.add("replay_walks", len(walks))
    for (out, err), (cfg, walk) in zip(results, walks):
        if err:
            rep.violation({"component": NAMES[cfg["kind"]], "cfg": cfg, "clauses": ["ReplayException"], "what": err[-1500:]})
            continue
        _, n, bad = out
        rep.add("replay_cycles", n)
        if bad:
            rep.violation({"component": NAMES[cfg["kind"]], "cfg": cfg, "clauses": ["EdgeReplay"],
                           "what": "; ".join(bad["problems"]), "schedule": bad["schedule"],
                           "model_from": bad["from"], "model_label": bad["lab"], "observed": bad["observed"]})
    if walks:
        rep.sample({"kind": "edge-walk", "cfg": walks[-1][0], "requests": [w["lab"]["req"] for w in walks[-1][1][:6]]})

    # 3. code -> spec
    seeds = 24 if thorough else 4
    cycles = 2000 if thorough else 500
    tasks = []
    for ci, cfg in enumerate([{"kind": k, "count": n} for k in KINDS for n in range(1, 7)]):
        for s in range(seeds):
            tasks.append((__name__, "record", (cfg, rep.seed * 100003 + ci * 1009 + s, cycles)))
    traces = []
    for (tr, err), t in zip(fan_out(tasks), tasks):
        if err:
            rep.violation({"component": NAMES[t[2][0]["kind"]], "cfg": t[2][0], "clauses": ["BuildOrRunException"],
                           "what": err[-1500:]})
        else:
            traces.append(tr)
    for k, v in impl_stats(traces).items():
        rep.add("impl_" + k, v)
    validate(rep, traces, corrupted_traces(traces, random.Random(rep.seed)))
    rep.sample({"kind": "impl-trace", "cfg": traces[0]["cfg"], "first_cycles": traces[0]["cycles"][:4]})

    rep.coverage["rule"] = (
        "MC: kinds {onehot, registered} x count 1..6, every request set from every reachable state incl. the "
        "bounded-wait history; S->C: every (pointer/valid state, request set) edge replayed into the real arbiter "
        "by edge-cover walks; C->S: seeded random request histories with phases (all request, one input held, "
        "pairs, sparse, idle). distinct_nontrivial = model edges replayed (distinct (kind, count, state, request "
        "set)); samples = replayed + recorded cycles")
    rep.coverage["evaluations"] = rep.coverage.get("replay_cycles", 0) + rep.coverage.get("impl_cycles", 0)
    rep.coverage["distinct_nontrivial"] = len(edges)
    rep.assumptions += [
        "Amaranth Python simulator is faithful to the elaborated netlist",
        "'grants none' for OneHotRoundRobin is read on the qualified grant (grant & valid, as the scheduler and the "
        "repository's test use it); the raw grant port keeps the pointer when no request is present and is a "
        "don't-care there",
        "reset pointer (input 0 has lowest priority after reset) and rotation order are model conformance "
        "(clause ModelStep / EdgeReplay), taken from the code and RoundRobin's docstring",
    ]


def replay(rep, path):
    d = json.load(open(path))
    cfg = d["cfg"]
    lines = run_requests(cfg, d["schedule"] + [0])
    validate(rep, [{"cfg": cfg, "seed": d.get("seed"), "cycles": lines}])
