"""C11 Ill-formed designs are rejected, well-formed ones accepted (specs/core/TxnCore.tla, TxnCoreTrace.tla, TxnCoreMC.tla)."""
from vlib.core import core_check

OPTS = [dict(p_defect=0.35), dict(p_defect=0.2, p_rel=1.0, p_nested=0.3), dict(p_defect=0.0, p_struct=0.8, p_nonexcl=0.5), dict(p_defect=0.3, max_m=3, max_t=2),
        # ready-dependent ordering between conflicting transactions; the same pair related twice
        dict(p_defect=0.0, p_rdepconf=0.7, p_dblrel=0.5, max_m=3, max_t=3, p_rel=0.3)]


def run(rep):
    core_check(rep, "C11", [dict(o) for o in OPTS], 200, 6000, nontrivial_key="impl_designs", cyc_quick=32, cyc_thorough=64)
    rep.coverage["rule"] = ("random designs from vlib/coregen.py's grammar built with the real API, every valuation of the "
                            "control inputs (or random ones when there are many), both directions bound by TxnCoreTrace; "
                            "clause RaisedIffIllFormed: elaboration raised <=> TxnCore!VerdictD(design) # ok, for generated designs incl. deliberately defective ones and their repaired neighbours; distinct_nontrivial = designs judged")


def replay(rep, path):
    from vlib.core import replay_case
    replay_case(rep, "C11", path)
